"""
C03 demo B: building the slope covariance matrix again on the same CovarianceMatrix object -- in either mode
(single process / process pool), in any order, with the thread count toggled between builds -- must return
the very same matrix every time, and that matrix must equal the one a freshly constructed object gives for
any worker count.

Several sensor configurations are exercised (laser guide stars at finite altitude, natural guide stars at
infinity (gs_altitude 0), mixed asterisms; one or several layers), each with several rebuild sequences.

Exit status 0: property holds.  Exit status 1: a violation was found (printed).
"""
import sys

import numpy

import aotools


def make_builder(config, threads):
    n_wfs = len(config["gs_altitudes"])
    telescope_diameter = 4.2
    nx_subaps = 5
    layer_altitudes = numpy.array(config["layer_altitudes"], dtype=float)
    n_layers = len(layer_altitudes)
    layer_r0s = [0.4, 0.8, 1.1, 0.6][:n_layers]
    layer_L0s = [25., 50., 30., 20.][:n_layers]
    subap_diameters = [telescope_diameter / nx_subaps] * n_wfs
    pupil_masks = [aotools.circle(nx_subaps / 2., nx_subaps)] * n_wfs
    wfs_wavelengths = [600e-9] * n_wfs
    return aotools.CovarianceMatrix(
        n_wfs, pupil_masks, telescope_diameter, subap_diameters, config["gs_altitudes"], config["gs_positions"],
        wfs_wavelengths, n_layers, layer_altitudes, layer_r0s, layer_L0s, threads)


CONFIGS = [
    {"name": "3 LGS, 3 layers",
     "gs_altitudes": [90000, 90000, 90000],
     "gs_positions": [[10., 0.], [-5., 8.], [-5., -8.]],
     "layer_altitudes": [0., 5000., 12000.]},
    {"name": "on-axis NGS + 2 off-axis NGS, single high layer",
     "gs_altitudes": [0, 0, 0],
     "gs_positions": [[0., 0.], [20., 0.], [-12., 15.]],
     "layer_altitudes": [8000.]},
    {"name": "LGS + off-axis NGS + on-axis NGS truth sensor, 3 layers",
     "gs_altitudes": [0, 90000, 0],
     "gs_positions": [[0., 0.], [15., 5.], [-20., 10.]],
     "layer_altitudes": [0., 4000., 11000.]},
]

# each sequence is the thread count used for successive builds on ONE object
SEQUENCES = [
    [1, 1, 1],
    [1, 2, 1],
    [2, 1, 2],
    [3, 3, 1],
]


def identical(a, b):
    return a.shape == b.shape and a.dtype == b.dtype and a.tobytes() == b.tobytes()


def describe_difference(ref, got):
    if ref.shape != got.shape:
        return "shape {} instead of {}".format(got.shape, ref.shape)
    bad = ~((ref == got) | (numpy.isnan(ref) & numpy.isnan(got)))
    idx = tuple(numpy.argwhere(bad)[0])
    return "{} of {} elements differ, e.g. [{}, {}]: {!r} expected, got {!r}".format(
        int(bad.sum()), ref.size, idx[0], idx[1], float(ref[idx]), float(got[idx]))


def main():
    failures = []

    for config in CONFIGS:
        # what a brand-new object returns, for several worker counts
        fresh = {}
        for threads in (1, 2, 3):
            fresh[threads] = make_builder(config, threads).make_covariance_matrix().copy()
        reference = fresh[1]
        for threads in (2, 3):
            if not identical(reference, fresh[threads]):
                failures.append("[{}] fresh object with {} processes differs from single process: {}".format(
                    config["name"], threads, describe_difference(reference, fresh[threads])))

        # rebuild sequences on one object
        for sequence in SEQUENCES:
            builder = make_builder(config, sequence[0])
            for build_n, threads in enumerate(sequence):
                builder.threads = threads
                got = builder.make_covariance_matrix()
                if not identical(reference, got):
                    failures.append(
                        "[{}] build #{} of thread sequence {} (threads={}) differs from the first/fresh build: {}".format(
                            config["name"], build_n + 1, sequence, threads, describe_difference(reference, got)))
                    break

    if failures:
        print("C03 VIOLATED: rebuilding on the same object does not reproduce the covariance matrix")
        for f in failures:
            print("  - " + f)
        return 1

    print("C03 holds: every rebuild, in every mode and order tried, reproduced the same matrix")
    return 0


if __name__ == "__main__":
    sys.exit(main())
