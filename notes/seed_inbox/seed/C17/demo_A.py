"""
C17 demo A: for stacked Cn2 profiles the `axis` argument of coherenceTime / isoplanaticAngle
must give the same numbers as looping over the individual profiles, whatever the rank of the
stack and whichever axis holds the turbulent layers.
"""
import itertools
import sys

import numpy

from aotools.turbulence import atmos_conversions as ac

RTOL = 1e-12
failures = []


def loop_reference(func, cn2, w, lamda, axis):
    """Evaluate func profile-by-profile (1-D calls only) and reassemble the result."""
    cn2_l = numpy.moveaxis(cn2, axis, -1)
    w_l = numpy.moveaxis(w, axis, -1)
    out = numpy.empty(cn2_l.shape[:-1])
    for idx in itertools.product(*[range(n) for n in out.shape]):
        out[idx] = func(cn2_l[idx], w_l[idx], lamda)
    return out


def check(name, func, shape, axis, lamda, rng):
    cn2 = 10 ** rng.uniform(-17, -13, size=shape)
    w = rng.uniform(1., 20000., size=shape)
    got = numpy.asarray(func(cn2, w, lamda, axis=axis))
    want = loop_reference(func, cn2, w, lamda, axis)
    if got.shape != want.shape:
        failures.append("%s shape=%s axis=%d: result shape %s, looping over profiles gives %s"
                        % (name, shape, axis, got.shape, want.shape))
    elif not numpy.allclose(got, want, rtol=RTOL, atol=0):
        err = numpy.max(numpy.abs(got / want - 1))
        failures.append("%s shape=%s axis=%d: differs from per-profile loop (max rel err %.3g)"
                        % (name, shape, axis, err))


def main():
    rng = numpy.random.default_rng(17)
    shapes = [(6,), (4, 6), (6, 4), (3, 4, 5), (4, 4, 4), (5, 3, 3), (2, 3, 4, 5), (3, 3, 3, 3)]
    for shape in shapes:
        for axis in range(-len(shape), len(shape)):
            for lamda in (500e-9, 1.65e-6):
                check("coherenceTime", ac.coherenceTime, shape, axis, lamda, rng)
                check("isoplanaticAngle", ac.isoplanaticAngle, shape, axis, lamda, rng)

    # single layer limit: theta0 = 0.314 r0/h and tau0 = 0.314 r0/v (published constants are rounded)
    for cn2, x, lamda in [(5e-13, 10000., 500e-9), (1e-15, 10., 2.2e-6), (3e-14, 250., 1e-6)]:
        r0 = ac.cn2_to_r0(cn2, lamda)
        tau0 = ac.coherenceTime(numpy.array([cn2]), numpy.array([x]), lamda)
        theta0 = ac.isoplanaticAngle(numpy.array([cn2]), numpy.array([x]), lamda) * numpy.pi / (180 * 3600)
        for nm, val in (("coherenceTime", tau0), ("isoplanaticAngle", theta0)):
            if abs(val / (0.314 * r0 / x) - 1) > 2e-3:
                failures.append("%s single layer: %g is not 0.314 r0/x = %g" % (nm, val, 0.314 * r0 / x))

    if failures:
        print("C17 VIOLATED: axis argument disagrees with looping over profiles")
        for f in failures[:20]:
            print("  " + f)
        print("  (%d failures in total)" % len(failures))
        return 1
    print("C17 ok: axis argument == loop over profiles for all ranks/axes tried")
    return 0


if __name__ == "__main__":
    sys.exit(main())
