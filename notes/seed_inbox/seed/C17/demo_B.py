"""
C17 demo B: slope variance <-> r0 is an exact inverse pair.

If every sub-aperture's slope time-series has exactly the variance predicted by
slope_variance_from_r0(r0, wavelength, d), then r0_from_slopes must hand back r0 -- for every
wavelength, every sub-aperture size, and irrespective of any static (time independent) slope
offset of the individual sub-apertures, since a constant does not change a variance.
"""
import sys

import numpy

from aotools.turbulence import atmos_conversions as ac

RTOL = 1e-9
failures = []


def slopes_with_exact_variance(rng, shape, variance, offsets):
    """Time series (last axis) whose *sample* variance is exactly `variance`, plus static offsets."""
    s = rng.normal(size=shape)
    s -= s.mean(axis=-1, keepdims=True)
    s *= numpy.sqrt(variance / s.var(axis=-1, keepdims=True))
    return s + offsets


def check(label, r0, wavelength, d, shape, offsets, rng):
    variance = ac.slope_variance_from_r0(r0, wavelength, d)
    slopes = slopes_with_exact_variance(rng, shape, variance, offsets)
    # sanity of the construction itself: per-subap variance is what the forward converter said
    assert numpy.allclose(slopes.var(axis=-1), variance, rtol=1e-10, atol=0)
    got = ac.r0_from_slopes(slopes, wavelength, d)
    if not numpy.isfinite(got) or abs(got / r0 - 1) > RTOL:
        failures.append("%s: r0=%g lambda=%g d=%g shape=%s -> r0_from_slopes(slopes with variance "
                        "slope_variance_from_r0(r0)) = %.12g (rel err %.3g)"
                        % (label, r0, wavelength, d, shape, got, abs(got / r0 - 1)))


def main():
    rng = numpy.random.default_rng(1998)
    for r0 in (0.05, 0.15, 0.6):
        for wavelength in (500e-9, 850e-9, 2.2e-6):
            for d in (0.1, 0.5):
                for shape in [(2, 10, 200), (2, 37, 64), (2, 1, 50)]:
                    sigma = numpy.sqrt(ac.slope_variance_from_r0(r0, wavelength, d))
                    zero = 0.
                    check("zero-mean slopes", r0, wavelength, d, shape, zero, rng)
                    # one common pointing offset for the whole sensor
                    check("common tilt offset", r0, wavelength, d, shape, 3 * sigma, rng)
                    # static aberration: every sub-aperture has its own constant slope offset
                    static = rng.normal(scale=2 * sigma, size=shape[:-1] + (1,))
                    check("static per-subaperture offsets", r0, wavelength, d, shape, static, rng)

    # and the other way round: variance -> r0 -> variance
    for var in (1e-14, 3e-13, 2e-11):
        for wavelength in (500e-9, 1.6e-6):
            slopes = slopes_with_exact_variance(rng, (2, 12, 100), var,
                                                rng.normal(scale=numpy.sqrt(var), size=(2, 12, 1)))
            r0 = ac.r0_from_slopes(slopes, wavelength, 0.3)
            back = ac.slope_variance_from_r0(r0, wavelength, 0.3)
            if abs(back / var - 1) > RTOL:
                failures.append("variance %g -> r0 %g -> variance %g (lambda=%g)" % (var, r0, back, wavelength))

    if failures:
        print("C17 VIOLATED: slope variance <-> r0 is not an inverse pair")
        for f in failures[:15]:
            print("  " + f)
        print("  (%d failures in total)" % len(failures))
        return 1
    print("C17 ok: slope variance <-> r0 round-trips exactly")
    return 0


if __name__ == "__main__":
    sys.exit(main())
