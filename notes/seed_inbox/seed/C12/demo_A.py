"""
C12 demo A: Zernike modes must be right for every rotation, whatever was
generated earlier in the same process.

For a handful of grid sizes (odd and even) and a sequence of rotation angles,
every mode returned by zernike_noll / zernikeArray / phaseFromZernikes is
compared with an independent reference built here from the textbook (Noll 1976)
definition:

    Z_j = sqrt(n+1) R_n^0(r)                          m == 0
    Z_j = sqrt(2(n+1)) R_n^|m|(r) cos(|m| theta + rot)   j even
    Z_j = sqrt(2(n+1)) R_n^|m|(r) sin(|m| theta + rot)   j odd

Exit 0 if everything agrees, exit 1 (with a description) otherwise.
"""
import sys
from math import factorial

import numpy

from aotools.functions import zernike


def noll_table(jmax):
    """Noll index -> (n, m) by direct enumeration of Noll's ordering rule."""
    table = {}
    j = 1
    n = 0
    while j <= jmax:
        for am in range(n % 2, n + 1, 2):       # |m| ascending within the row
            if am == 0:
                table[j] = (n, 0)
                j += 1
            else:
                # two consecutive indices: the even one is cosine (m > 0)
                for _ in range(2):
                    table[j] = (n, am if j % 2 == 0 else -am)
                    j += 1
        n += 1
    return table


def ref_radial(n, am, r):
    out = numpy.zeros_like(r)
    for s in range((n - am) // 2 + 1):
        c = ((-1) ** s * factorial(n - s)) / (
            factorial(s) * factorial((n + am) // 2 - s) * factorial((n - am) // 2 - s))
        out += c * r ** (n - 2 * s)
    return out


def ref_mode(j, N, rot, table):
    n, m = table[j]
    c = (numpy.arange(N) + 0.5 - N / 2.0) / (N / 2.0)
    X, Y = numpy.meshgrid(c, c)
    r = numpy.hypot(X, Y)
    th = numpy.arctan2(Y, X)
    if m == 0:
        Z = numpy.sqrt(n + 1) * ref_radial(n, 0, r)
    elif m > 0:
        Z = numpy.sqrt(2 * (n + 1)) * ref_radial(n, m, r) * numpy.cos(m * th + rot)
    else:
        Z = numpy.sqrt(2 * (n + 1)) * ref_radial(n, -m, r) * numpy.sin(-m * th + rot)
    return Z * (r <= 1.0)


def main():
    JMAX = 15
    table = noll_table(JMAX)
    failures = []
    rng = numpy.random.RandomState(12)

    for N in (16, 21):
        for rot in (0.0, 0.6, numpy.pi / 2):
            ref = numpy.array([ref_mode(j, N, rot, table) for j in range(1, JMAX + 1)])

            # single modes
            for j in range(1, JMAX + 1):
                got = zernike.zernike_noll(j, N, rot)
                err = numpy.abs(got - ref[j - 1]).max()
                if not err < 1e-9:
                    failures.append(
                        "zernike_noll(j=%d, N=%d, rot=%.4f) differs from the Noll "
                        "definition by %.3g" % (j, N, rot, err))

            # count-built array, list-built array, and linear combination
            Zs = zernike.zernikeArray(JMAX, N, rot=rot)
            err = numpy.abs(Zs - ref).max()
            if not err < 1e-9:
                failures.append("zernikeArray(%d, N=%d, rot=%.4f) differs from reference "
                                "by %.3g" % (JMAX, N, rot, err))
            idx = [2, 3, 7, 8, 11]
            Zl = zernike.zernikeArray(idx, N, rot=rot)
            err = numpy.abs(Zl - ref[[i - 1 for i in idx]]).max()
            if not err < 1e-9:
                failures.append("zernikeArray(%r, N=%d, rot=%.4f) differs from reference "
                                "by %.3g" % (idx, N, rot, err))
            a = rng.normal(size=JMAX)
            ph = zernike.phaseFromZernikes(list(a), N, rot=rot)
            err = numpy.abs(ph - numpy.tensordot(a, ref, axes=1)).max()
            if not err < 1e-8:
                failures.append("phaseFromZernikes(N=%d, rot=%.4f) is not the linear "
                                "combination of the rotated modes (err %.3g)" % (N, rot, err))

        # a quarter-turn phase offset turns tip (cos) into minus tilt (sin)
        tip_q = zernike.zernike_noll(2, N, numpy.pi / 2)
        tilt = zernike.zernike_noll(3, N, 0.0)
        err = numpy.abs(tip_q + tilt).max()
        if not err < 1e-9:
            failures.append("N=%d: Z2 with rot=pi/2 should equal -Z3, max diff %.3g" % (N, err))

    if failures:
        print("C12 VIOLATED: %d mismatches" % len(failures))
        for f in failures[:12]:
            print("  " + f)
        if len(failures) > 12:
            print("  ...")
        return 1
    print("C12 demo A: all rotated modes match the Noll definition")
    return 0


if __name__ == "__main__":
    sys.exit(main())
