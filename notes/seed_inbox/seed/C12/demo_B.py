"""
C12 demo B: Noll-normalised Zernike modes are orthonormal over the inscribed
pupil for *all* radial orders, not only the first few.

A set of modes spanning radial orders 2 .. 30 is generated on a fine grid, the
Gram matrix  G_ab = sum(Z_a Z_b) / (#pupil pixels)  is formed, and it must be
close to the identity (discretisation error only).  The radial profile is also
checked against the closed-form values R_n^m(1) = 1 and the rms-normalised
version must have unit RMS over the pupil.

Exit 0 if the property holds, 1 otherwise.
"""
import sys

import numpy

from aotools.functions import zernike


def noll_index(n, m):
    """Smallest search over j for the Noll index of (n, m)."""
    j0 = n * (n + 1) // 2 + 1
    for j in range(j0, j0 + n + 1):
        if zernike.zernIndex(j) == [n, m]:
            return j
    raise AssertionError("no Noll index found for (%d, %d)" % (n, m))


def main():
    N = 240
    nm = [(2, 0), (3, 1), (6, -2), (10, 0), (14, 4), (18, -6), (20, 0), (20, 2),
          (21, 1), (21, -3), (22, 0), (22, 2), (23, 1), (24, 0), (24, -4), (25, 5),
          (26, 0), (28, 2), (30, 0), (30, -10)]
    js = [noll_index(n, m) for (n, m) in nm]

    c = (numpy.arange(N) + 0.5 - N / 2.0) / (N / 2.0)
    X, Y = numpy.meshgrid(c, c)
    pupil = (X * X + Y * Y) <= 1.0
    npix = pupil.sum()

    failures = []

    Zs = zernike.zernikeArray(js, N)
    if not numpy.all(numpy.isfinite(Zs)):
        failures.append("non-finite values in generated modes")
    outside = numpy.abs(Zs[:, ~pupil]).max()
    if not outside == 0:
        failures.append("modes do not vanish outside the pupil (max %.3g)" % outside)

    flat = Zs.reshape(len(js), -1)
    G = flat.dot(flat.T) / npix
    E = numpy.abs(G - numpy.eye(len(js)))
    tol = 0.08
    for a in range(len(js)):
        for b in range(a, len(js)):
            if not E[a, b] < tol:
                failures.append(
                    "Gram[(n,m)=%s j=%d, (n,m)=%s j=%d] = %.4g, expected %d (N=%d)"
                    % (nm[a], js[a], nm[b], js[b], G[a, b], int(a == b), N))

    # radial polynomial is 1 at the pupil edge for every (n, m)
    for (n, m) in nm:
        edge = zernike.zernikeRadialFunc(n, abs(m), numpy.array([[1.0]]))[0, 0]
        if not abs(edge - 1.0) < 1e-6:
            failures.append("R_%d^%d(1) = %.6g, expected 1" % (n, abs(m), edge))

    # rms normalisation gives unit RMS over the pupil and is a rescaling of Noll
    Zr = zernike.zernikeArray(js, N, norm="rms")
    for a in range(len(js)):
        rms = numpy.sqrt((Zr[a][pupil] ** 2).mean())
        if not abs(rms - 1.0) < 1e-9:
            failures.append("rms-normalised mode j=%d has RMS %.6g" % (js[a], rms))
        scale = numpy.sqrt(G[a, a])
        if not numpy.allclose(Zr[a] * scale, Zs[a], atol=1e-9 * max(1.0, abs(scale))):
            failures.append("rms-normalised mode j=%d is not a rescaled Noll mode" % js[a])

    if failures:
        print("C12 VIOLATED: %d problems" % len(failures))
        for f in failures[:15]:
            print("  " + f)
        if len(failures) > 15:
            print("  ...")
        return 1
    print("C12 demo B: high-order modes orthonormal (max |G - I| = %.3g)" % E.max())
    return 0


if __name__ == "__main__":
    sys.exit(main())
