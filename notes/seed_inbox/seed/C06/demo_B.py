"""
C06 demo B: a seeded infinite phase screen -- the initial screen and every row subsequently added --
must be bit-identical between two reproductions, irrespective of which *other* screen instances were
created or advanced in between / beforehand.

Each reproduction is run in a fresh interpreter with a different history of other screen objects:

  alone        : only the screen under test exists
  after_other  : an unrelated screen (same size, pixel scale and L0 as in a multi-layer atmosphere,
                 but another r0 and another seed) was built first and is advanced in between
  after_mixed  : several unrelated screens of other geometries were built first

All three must give exactly the same bytes.
"""
import hashlib
import os
import subprocess
import sys
import tempfile

import numpy

N_ROWS = 40
PARAMS = dict(nx_size=32, pixel_scale=0.1, r0=0.1, L0=25.)
SEED = 1
CLASSES = ("PhaseScreenVonKarman", "PhaseScreenKolmogorov")
HISTORIES = ("alone", "after_other", "after_mixed")


def child(history, clsname, outfile):
    from aotools.turbulence import infinitephasescreen, phasescreen
    cls = getattr(infinitephasescreen, clsname)

    others = []
    if history == "after_other":
        # another layer of the same atmosphere: same geometry and outer scale, different strength
        others.append(cls(PARAMS["nx_size"], PARAMS["pixel_scale"], 0.2, PARAMS["L0"], random_seed=5))
    elif history == "after_mixed":
        others.append(cls(16, 0.2, 0.2, 40., random_seed=5))
        others.append(cls(32, 0.1, 0.3, 50., random_seed=6))
        phasescreen.ft_sh_phase_screen(0.2, 16, 0.1, 30., 0.01, seed=2)
        numpy.random.seed(4)

    scrn = cls(PARAMS["nx_size"], PARAMS["pixel_scale"], PARAMS["r0"], PARAMS["L0"], random_seed=SEED)
    frames = [scrn.scrn.copy()]
    for i in range(N_ROWS):
        for o in others:
            o.add_row()
        numpy.random.normal(size=3)
        frames.append(scrn.add_row().copy())
    numpy.save(outfile, numpy.array(frames))


def main():
    failures = 0
    tmp = tempfile.mkdtemp(prefix="c06_demo_b_")
    for clsname in CLASSES:
        results = {}
        for history in HISTORIES:
            outfile = os.path.join(tmp, "%s_%s.npy" % (clsname, history))
            subprocess.run([sys.executable, os.path.abspath(__file__), "--child", history, clsname, outfile],
                           check=True, stdout=subprocess.DEVNULL, stderr=subprocess.DEVNULL)
            results[history] = numpy.load(outfile)

        ref = results["alone"]
        for history in HISTORIES[1:]:
            got = results[history]
            if ref.tobytes() != got.tobytes():
                failures += 1
                bad = [i for i in range(len(ref)) if ref[i].tobytes() != got[i].tobytes()]
                print("FAIL: %s(seed=%d, %s): history '%s' gives a different screen than 'alone'"
                      % (clsname, SEED, PARAMS, history))
                print("      first differing frame: %d (0 = initial screen, k = after k add_row calls); "
                      "%d of %d frames differ; max |diff| = %.3g rad"
                      % (bad[0], len(bad), len(ref), numpy.abs(ref - got).max()))
                print("      sha256 alone      = %s" % hashlib.sha256(ref.tobytes()).hexdigest())
                print("      sha256 %-11s= %s" % (history, hashlib.sha256(got.tobytes()).hexdigest()))

    if failures:
        print("%d violations: seeded infinite screens depend on other screen instances" % failures)
        return 1
    print("C06 demo B: seeded infinite screens identical under all histories")
    return 0


if __name__ == "__main__":
    if len(sys.argv) > 1 and sys.argv[1] == "--child":
        child(*sys.argv[2:5])
        sys.exit(0)
    sys.exit(main())
