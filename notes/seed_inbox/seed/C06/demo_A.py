"""
C06 demo A: seeded finite FFT screens (plain and sub-harmonic) must be bit-identical across calls,
whatever is interleaved, for every seed the library accepts -- Python ints of any size *and* the
NumPy integer scalars one gets from numpy.arange, Generator.integers, an array of per-layer
seeds, and so on.  Different seeds must give different screens and unseeded calls must differ.
"""
import sys
import numpy
from aotools.turbulence import phasescreen, infinitephasescreen

failures = []


def check(cond, msg):
    if not cond:
        failures.append(msg)
        print("FAIL:", msg)


def disturb():
    # unrelated activity between two reproductions
    numpy.random.seed(12345)
    numpy.random.normal(size=17)
    phasescreen.ft_phase_screen(0.15, 16, 0.1, 20., 0.01)
    phasescreen.ft_sh_phase_screen(0.15, 16, 0.1, 20., 0.01, seed=99)
    s = infinitephasescreen.PhaseScreenVonKarman(8, 0.25, 0.2, 20., random_seed=3)
    s.add_row()


makers = {
    "ft_phase_screen": lambda seed, N: phasescreen.ft_phase_screen(0.2, N, 0.05, 30., 0.01, seed=seed),
    "ft_sh_phase_screen": lambda seed, N: phasescreen.ft_sh_phase_screen(0.2, N, 0.05, 30., 0.01, seed=seed),
}

layer_seeds = numpy.arange(3, 6)                       # numpy.int64 scalars when iterated
drawn_seed = numpy.random.default_rng(7).integers(2**31)  # numpy.int64

seeds = [
    ("int 0", 0), ("int 1", 1), ("int 2**40+5", 2**40 + 5),
    ("numpy.int64(11)", numpy.int64(11)), ("numpy.uint32(11)", numpy.uint32(11)),
    ("numpy.int32(0)", numpy.int32(0)),
    ("element of numpy.arange", layer_seeds[1]),
    ("Generator.integers draw", drawn_seed),
]

for name, make in makers.items():
    for N in (32, 33):
        for label, seed in seeds:
            a = make(seed, N)
            disturb()
            b = make(seed, N)
            check(a.tobytes() == b.tobytes(),
                  "%s(N=%d) with seed %s [%s] is not reproducible: max |diff| = %g"
                  % (name, N, label, type(seed).__name__, numpy.abs(a - b).max()))
            # the same seed value must mean the same screen whether given as int or NumPy integer
            c = make(int(seed), N)
            check(a.tobytes() == c.tobytes(),
                  "%s(N=%d): seed %s and plain int %d give different screens" % (name, N, label, int(seed)))

    # different seeds -> different screens; unseeded calls differ from each other
    check(not numpy.array_equal(make(1, 32), make(2, 32)), "%s: seeds 1 and 2 give the same screen" % name)
    check(not numpy.array_equal(make(numpy.int64(1), 32), make(numpy.int64(2), 32)),
          "%s: numpy seeds 1 and 2 give the same screen" % name)
    check(not numpy.array_equal(make(None, 32), make(None, 32)), "%s: two unseeded screens are equal" % name)

if failures:
    print("%d reproducibility violations" % len(failures))
    sys.exit(1)
print("C06 demo A: all seeded finite screens reproducible")
sys.exit(0)
