"""C13, Cartesian rendering: for ANY output size `dim` (even or odd) the returned pupil is
the indicator of the annulus ri <= r <= 1 on the centred pixel grid, masked modes vanish
outside it, and every pixel carries the value of the polar KL function at that pixel's
(r, theta) up to the resampling error."""
import contextlib
import io
import sys
import warnings

import numpy as np

warnings.filterwarnings('ignore')
from aotools.functions import karhunenLoeve as KL

failures = []


def polar_function(basis, i, r, theta):
    """K_i(r, theta): radial profile (linear in r^2 between the rings, held constant
    beyond the first / last ring) times the analytic azimuthal factor."""
    s = basis['radp'] ** 2
    rad = np.interp(r ** 2, s, basis['rabas'][:, i])
    o = int(basis['ord'][i])
    if o == 0:
        az = np.ones_like(theta)
    elif o % 2 == 1:
        az = np.cos((o // 2 + 1) * theta)
    else:
        az = np.sin((o // 2) * theta)
    return rad * az


def check(ri, nr, nmax, dim):
    label = 'make_kl(nmax=%d, dim=%d, ri=%g, nr=%d)' % (nmax, dim, ri, nr)
    with contextlib.redirect_stdout(io.StringIO()):
        kl, var, pupil, basis = KL.make_kl(nmax, dim, ri=ri, nr=nr)
    # centred pixel grid, pupil diameter = dim pixels; x along columns, y along rows
    c = (np.arange(dim) - (dim - 1) / 2.) / (dim / 2.)
    x, y = np.meshgrid(c, c)
    r = np.hypot(x, y)
    theta = np.arctan2(y, x) % (2 * np.pi)
    annulus = (r >= ri) & (r <= 1)
    # pixels whose centre sits numerically on an edge are not decidable: leave them out
    decided = (np.abs(r - ri) > 1e-9) & (np.abs(r - 1) > 1e-9)

    if kl.shape != (nmax, dim, dim) or pupil.shape != (dim, dim):
        failures.append('%s: wrong output shapes' % label)
        return
    nbad = int(np.sum((pupil != annulus)[decided]))
    if nbad:
        failures.append('%s: pupil differs from the annulus indicator at %d pixels' % (label, nbad))
    if not np.array_equal(pupil, pupil[::-1, :]) or not np.array_equal(pupil, pupil[:, ::-1]) \
            or not np.array_equal(pupil, pupil.T):
        failures.append('%s: pupil is not symmetric about the array centre' % label)
    out = decided & ~annulus
    leak = np.abs(kl[:, out]).max() if out.any() else 0.
    if leak > 0:
        failures.append('%s: masked modes are non-zero outside the annulus (max %.3g)' % (label, leak))

    # resampling error budget: one polar cell (dr2 = (1-ri^2)/nr, dtheta = 2 pi/npp) of slack
    inside = decided & annulus
    dth = 2 * np.pi / basis['np']
    ds = (1 - ri ** 2) / nr
    worst = 0.
    for i in range(nmax):
        vals = []
        for a in np.linspace(-dth, dth, 5):
            for b in np.linspace(-ds, ds, 5):
                rr = np.sqrt(np.clip(r ** 2 + b, ri ** 2, 1.))
                vals.append(polar_function(basis, i, rr, theta + a))
        vals = np.array(vals)
        lo, hi = vals.min(axis=0), vals.max(axis=0)
        slack = 1e-6 + 0.1 * (hi - lo)
        excess = np.maximum(lo - slack - kl[i], kl[i] - hi - slack)[inside]
        worst = max(worst, excess.max())
    if worst > 0:
        failures.append('%s: a pixel value is outside the range of the polar function over the '
                        'neighbouring polar cell (by %.3g)' % (label, worst))
    return worst


for args in [(0.2, 16, 12, 32), (0.3, 20, 20, 48), (0.5, 12, 10, 20),
             (0.2, 16, 12, 33), (0.3, 20, 20, 47), (0.5, 12, 10, 21), (0.1, 24, 15, 65)]:
    try:
        check(*args)
    except Exception as exc:            # noqa
        failures.append('make_kl%r raised %r' % (args, exc))

if failures:
    print('C13 VIOLATED:')
    for f in failures:
        print('  -', f)
    sys.exit(1)
print('C13 Cartesian rendering holds for even and odd sizes')
sys.exit(0)
