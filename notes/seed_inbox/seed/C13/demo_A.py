"""C13: KL modes are orthonormal, piston-free and diagonalise the Kolmogorov covariance
for ANY (ri, nr, nmax) -- in particular also when several bases are requested one after
the other for the same pupil geometry (growing the number of modes, or re-rendering the
same basis at another size)."""
import contextlib
import io
import sys
import warnings

import numpy as np

warnings.filterwarnings('ignore')
from aotools.functions import karhunenLoeve as KL

TOL = 1e-9
failures = []


def check_polar(basis, label):
    nmax, nr, npp, ri = basis['nfunc'], basis['nr'], basis['np'], basis['ri']
    ev = np.asarray(basis['evals'], dtype=float)
    modes = np.array([KL.gkl_sfi(basis, i) for i in range(nmax)]).reshape(nmax, -1)
    npts = modes.shape[1]

    def bad(msg):
        failures.append('%s: %s' % (label, msg))

    if not np.all(np.isfinite(modes)) or not np.all(np.isfinite(ev)):
        bad('non-finite modes / variances')
        return
    # native grid: equal-area rings x uniform angles -> pupil average == plain mean
    r = np.asarray(basis['radp'])
    d = (1 - ri ** 2) / nr
    if not (np.allclose(np.diff(r ** 2), d) and ri ** 2 <= r[0] ** 2 < ri ** 2 + d):
        bad('radial grid is not an equal-area sampling of the annulus')
    th = np.arange(npp) * 2 * np.pi / npp
    x = (r[:, None] * np.cos(th)).ravel()
    y = (r[:, None] * np.sin(th)).ravel()

    gram = modes @ modes.T / npts
    e = np.abs(gram - np.eye(nmax)).max()
    if e > TOL:
        bad('not orthonormal over the pupil (max |<Ki Kj> - delta_ij| = %.3g)' % e)
    e = np.abs(modes.mean(axis=1)).max()
    if e > TOL:
        bad('not piston free (max |mean| = %.3g)' % e)

    sep = np.hypot(x[:, None] - x[None, :], y[:, None] - y[None, :])
    D = KL.stf_kolmogorov(0.5 * sep)          # pupil diameter = 2 -> D/r0 units
    cov = -0.5 * modes @ D @ modes.T / npts ** 2
    scale = max(abs(np.diag(cov)).max(), 1e-300)
    e = np.abs(cov - np.diag(ev)).max() / scale
    if e > 1e-8:
        bad('covariance is not diag(returned variances) (rel. err = %.3g)' % e)
    if not np.all(ev > 0):
        bad('variances not all positive (min = %.3g)' % ev.min())
    if np.any(np.diff(ev) > 1e-12 * abs(ev).max()):
        bad('variances are not in non-increasing order')
    if nmax >= 2 and abs(ev[0] - ev[1]) > 1e-12 * abs(ev[0]):
        bad('tip and tilt variances differ')


def quiet(f, *a, **k):
    with contextlib.redirect_stdout(io.StringIO()):
        return f(*a, **k)


# 1. grow a basis on one pupil geometry: 10 modes, then 21, then 36
for ri, nr in [(0.25, 14), (0.6, 10)]:
    for nmax in (10, 21, 36):
        try:
            b = quiet(KL.gkl_basis, ri, nr, None, nmax)
            check_polar(b, 'gkl_basis(ri=%g, nr=%d, nfunc=%d)' % (ri, nr, nmax))
        except Exception as exc:            # noqa
            failures.append('gkl_basis(ri=%g, nr=%d, nfunc=%d) raised %r' % (ri, nr, nmax, exc))

# 2. the same basis rendered at two sizes must carry the same variances / polar modes
ri, nr, nmax = 0.35, 12, 15
try:
    _, var1, _, b1 = quiet(KL.make_kl, nmax, 24, ri=ri, nr=nr)
    _, var2, _, b2 = quiet(KL.make_kl, nmax, 40, ri=ri, nr=nr)
    if not np.allclose(var1, var2, rtol=1e-10, atol=0):
        failures.append('make_kl(ri=%g, nr=%d, nmax=%d): variances change between dim=24 and dim=40 '
                        '(%s vs %s)' % (ri, nr, nmax, var1[:4], var2[:4]))
    for b, dim in ((b1, 24), (b2, 40)):
        modes = np.array([KL.gkl_sfi(b, i) for i in range(nmax)]).reshape(nmax, -1)
        e = np.abs(modes @ modes.T / modes.shape[1] - np.eye(nmax)).max()
        if not e < TOL:
            failures.append('make_kl(..., dim=%d): polar modes not orthonormal (%.3g)' % (dim, e))
        e = np.abs(modes.mean(axis=1)).max()
        if not e < TOL:
            failures.append('make_kl(..., dim=%d): polar modes not piston free (%.3g)' % (dim, e))
except Exception as exc:                    # noqa
    failures.append('make_kl sequence raised %r' % (exc,))

if failures:
    print('C13 VIOLATED:')
    for f in failures:
        print('  -', f)
    sys.exit(1)
print('C13 holds for all repeated-geometry requests')
sys.exit(0)
