"""
C01 demo B -- for ANY layered von Karman atmosphere, in particular one whose outer scale is very much larger
than the sub-apertures (the usual way of asking for "nearly Kolmogorov" turbulence), the slope covariance
matrix must be symmetric, positive semi-definite, equal entry by entry to the covariance of the finite-difference
slopes of the von Karman phase, and additive over layers.

Exit status 0: property holds.  Exit status 1: property violated (details are printed).
"""
import sys

import numpy
import scipy.special

import aotools

ARCSEC = numpy.pi / 180. / 3600.


# --------------------------------------------------------------------------------------------
# Independent oracle: covariance of finite-difference slopes of a layered von Karman phase
# --------------------------------------------------------------------------------------------
def vk_structure_function(r, r0, L0):
    """von Karman phase structure function (normalisation of Martin et al. 2012), exact 0 at r = 0"""
    r = numpy.asarray(r, dtype=float)
    safe = numpy.where(r == 0, 1., r)
    x = 2 * numpy.pi * safe / L0
    bracket = 1 - 2 ** (1. / 6.) / scipy.special.gamma(5. / 6.) * x ** (5. / 6.) * scipy.special.kv(5. / 6., x)
    return numpy.where(r == 0, 0., 0.17253 * (L0 / r0) ** (5. / 3.) * bracket)


def reference_covariance(masks, tel_diam, subap_diams, gs_alts, gs_pos, wavelengths, layer_alts, layer_r0s, layer_L0s):
    """
    Builds, for every layer, the list of phase sample points (two per slope: the two ends of the
    finite difference across the projected sub-aperture) and the linear operator G taking the phase at those
    points to slopes [wfs0 x.., wfs0 y.., wfs1 x.., wfs1 y.., ...].  cov = sum_layers G (-D/2) G^T.
    """
    n_sub = [int((numpy.asarray(m) == 1).sum()) for m in masks]
    n_slopes = 2 * sum(n_sub)
    cov = numpy.zeros((n_slopes, n_slopes))
    for h, r0, L0 in zip(layer_alts, layer_r0s, layer_L0s):
        points = []
        rows, cols, vals = [], [], []
        row0 = 0
        for w, mask in enumerate(masks):
            d = float(subap_diams[w])
            idx = numpy.argwhere(numpy.asarray(mask) == 1).astype(float)
            pupil_pos = idx * d - tel_diam / 2. - d / 2.
            cone = 1. if gs_alts[w] == 0 else 1. - h / float(gs_alts[w])
            pos = cone * pupil_pos + numpy.asarray(gs_pos[w], dtype=float) * ARCSEC * h
            d_proj = d * cone
            gain = wavelengths[w] / (2 * numpy.pi * d_proj)
            for axis in (0, 1):
                e = numpy.zeros(2)
                e[axis] = d_proj / 2.
                for k in range(n_sub[w]):
                    row = row0 + axis * n_sub[w] + k
                    points.append(pos[k] + e)
                    rows.append(row); cols.append(len(points) - 1); vals.append(+gain)
                    points.append(pos[k] - e)
                    rows.append(row); cols.append(len(points) - 1); vals.append(-gain)
            row0 += 2 * n_sub[w]
        points = numpy.array(points)
        G = numpy.zeros((n_slopes, len(points)))
        G[rows, cols] = vals
        dist = numpy.sqrt(((points[:, None, :] - points[None, :, :]) ** 2).sum(-1))
        cov += G.dot(-0.5 * vk_structure_function(dist, r0, L0)).dot(G.T)
    return cov, n_sub


def library_covariance(order, masks, tel_diam, subap_diams, gs_alts, gs_pos, wavelengths, layer_alts, layer_r0s, layer_L0s):
    pick = lambda seq: [seq[i] for i in order]
    builder = aotools.CovarianceMatrix(
        len(order), pick(masks), tel_diam, pick(subap_diams), pick(gs_alts), pick(gs_pos), pick(wavelengths),
        len(layer_alts), layer_alts, layer_r0s, layer_L0s, 1)
    return numpy.array(builder.make_covariance_matrix(), dtype=float)



def check(name, system, failures):
    reference, n_sub = reference_covariance(*system)
    scale = numpy.abs(reference).max()
    tol = 1e-4 * scale
    mat = library_covariance(range(len(system[0])), *system)

    asym = numpy.abs(mat - mat.T).max()
    if asym > tol:
        failures.append("{}: matrix not symmetric (max |C - C^T| = {:.3e})".format(name, asym))
    min_eig = numpy.linalg.eigvalsh((mat + mat.T) / 2.).min()
    if min_eig < -1e-5 * scale:
        failures.append("{}: not positive semi-definite: min eigenvalue {:.3e} ({:.2%} of the largest entry)".format(
            name, min_eig, -min_eig / scale))
    err = numpy.abs(mat - reference)
    if err.max() > tol:
        i, j = numpy.unravel_index(err.argmax(), err.shape)
        failures.append(
            "{}: entry ({}, {}) is {:.6e} but the covariance of the two slopes is {:.6e} "
            "(max error {:.2%} of the largest entry)".format(name, i, j, mat[i, j], reference[i, j], err.max() / scale))
    return mat, scale


def main():
    failures = []

    # Two sodium LGS and an NGS on a 4.2 m telescope with 6x6 sub-apertures of 0.7 m, non point-symmetric masks
    tel_diam = 4.2
    nx = 6
    full = numpy.array(aotools.circle(nx / 2., nx) == 1, dtype=int)
    mask_a = full.copy()
    mask_a[0, 2] = 0
    mask_b = full.copy()
    mask_b[3, 0] = 0
    mask_b[5, 3] = 0
    mask_c = full.copy()
    mask_c[2, 5] = 0
    masks = [mask_a, mask_b, mask_c]
    subap_diams = [tel_diam / nx] * 3
    gs_alts = [0, 90000., 90000.]
    gs_pos = [[0., 0.], [15., -6.], [-11., 13.]]
    wavelengths = [600e-9, 589e-9, 589e-9]
    sensors = (masks, tel_diam, subap_diams, gs_alts, gs_pos, wavelengths)

    layer_alts = [0., 5000., 12000.]
    layer_r0s = [0.15, 0.3, 0.5]
    atmospheres = [
        ("ordinary outer scales L0 = (20, 30, 50) m", [20., 30., 50.]),
        ("large outer scales L0 = (2e4, 5e4, 1e5) m", [2e4, 5e4, 1e5]),
        ("mixed outer scales L0 = (25, 8e3, 3e4) m", [25., 8e3, 3e4]),
    ]
    for name, layer_L0s in atmospheres:
        total, scale = check(name, sensors + (layer_alts, layer_r0s, layer_L0s), failures)

        # additivity over layers
        parts = numpy.zeros_like(total)
        for k in range(len(layer_alts)):
            part, _ = check("{} / layer {} alone".format(name, k),
                            sensors + (layer_alts[k:k + 1], layer_r0s[k:k + 1], layer_L0s[k:k + 1]), failures)
            parts += part
        if numpy.abs(total - parts).max() > 1e-4 * scale:
            failures.append("{}: matrix is not the sum of the single-layer matrices".format(name))

    # r0 scaling: C(r0) * r0^(5/3) is independent of r0, also for a large outer scale
    one = check("single layer r0 = 0.1, L0 = 4e4", sensors + ([8000.], [0.1], [4e4]), failures)[0]
    two = check("single layer r0 = 0.4, L0 = 4e4", sensors + ([8000.], [0.4], [4e4]), failures)[0]
    if numpy.abs(one * 0.1 ** (5. / 3.) - two * 0.4 ** (5. / 3.)).max() > 1e-4 * numpy.abs(two).max() * 0.4 ** (5. / 3.):
        failures.append("matrix does not scale as r0^(-5/3)")

    if failures:
        print("C01 VIOLATED: slope covariance matrix differs from the covariance of the WFS slopes")
        for f in failures:
            print("  - " + f)
        return 1
    print("C01 holds for {} atmospheres (outer scales from 20 m to 1e5 m)".format(len(atmospheres)))
    return 0


if __name__ == "__main__":
    sys.exit(main())
