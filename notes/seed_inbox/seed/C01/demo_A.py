"""
C01 demo A -- the slope covariance matrix of a mixed LGS/NGS sensor set must not depend on the
order in which the sensors are listed (beyond the corresponding permutation of its blocks), and
every entry must equal the covariance of the two finite-difference slopes of the von Karman phase
at the projected sub-aperture positions, summed over layers.

Exit status 0: property holds.  Exit status 1: property violated (details are printed).
"""
import sys

import numpy
import scipy.special

import aotools

ARCSEC = numpy.pi / 180. / 3600.


# --------------------------------------------------------------------------------------------
# Independent oracle: covariance of finite-difference slopes of a layered von Karman phase
# --------------------------------------------------------------------------------------------
def vk_structure_function(r, r0, L0):
    """von Karman phase structure function (normalisation of Martin et al. 2012), exact 0 at r = 0"""
    r = numpy.asarray(r, dtype=float)
    safe = numpy.where(r == 0, 1., r)
    x = 2 * numpy.pi * safe / L0
    bracket = 1 - 2 ** (1. / 6.) / scipy.special.gamma(5. / 6.) * x ** (5. / 6.) * scipy.special.kv(5. / 6., x)
    return numpy.where(r == 0, 0., 0.17253 * (L0 / r0) ** (5. / 3.) * bracket)


def reference_covariance(masks, tel_diam, subap_diams, gs_alts, gs_pos, wavelengths, layer_alts, layer_r0s, layer_L0s):
    """
    Builds, for every layer, the list of phase sample points (two per slope: the two ends of the
    finite difference across the projected sub-aperture) and the linear operator G taking the phase at those
    points to slopes [wfs0 x.., wfs0 y.., wfs1 x.., wfs1 y.., ...].  cov = sum_layers G (-D/2) G^T.
    """
    n_sub = [int((numpy.asarray(m) == 1).sum()) for m in masks]
    n_slopes = 2 * sum(n_sub)
    cov = numpy.zeros((n_slopes, n_slopes))
    for h, r0, L0 in zip(layer_alts, layer_r0s, layer_L0s):
        points = []
        rows, cols, vals = [], [], []
        row0 = 0
        for w, mask in enumerate(masks):
            d = float(subap_diams[w])
            idx = numpy.argwhere(numpy.asarray(mask) == 1).astype(float)
            pupil_pos = idx * d - tel_diam / 2. - d / 2.
            cone = 1. if gs_alts[w] == 0 else 1. - h / float(gs_alts[w])
            pos = cone * pupil_pos + numpy.asarray(gs_pos[w], dtype=float) * ARCSEC * h
            d_proj = d * cone
            gain = wavelengths[w] / (2 * numpy.pi * d_proj)
            for axis in (0, 1):
                e = numpy.zeros(2)
                e[axis] = d_proj / 2.
                for k in range(n_sub[w]):
                    row = row0 + axis * n_sub[w] + k
                    points.append(pos[k] + e)
                    rows.append(row); cols.append(len(points) - 1); vals.append(+gain)
                    points.append(pos[k] - e)
                    rows.append(row); cols.append(len(points) - 1); vals.append(-gain)
            row0 += 2 * n_sub[w]
        points = numpy.array(points)
        G = numpy.zeros((n_slopes, len(points)))
        G[rows, cols] = vals
        dist = numpy.sqrt(((points[:, None, :] - points[None, :, :]) ** 2).sum(-1))
        cov += G.dot(-0.5 * vk_structure_function(dist, r0, L0)).dot(G.T)
    return cov, n_sub


def library_covariance(order, masks, tel_diam, subap_diams, gs_alts, gs_pos, wavelengths, layer_alts, layer_r0s, layer_L0s):
    pick = lambda seq: [seq[i] for i in order]
    builder = aotools.CovarianceMatrix(
        len(order), pick(masks), tel_diam, pick(subap_diams), pick(gs_alts), pick(gs_pos), pick(wavelengths),
        len(layer_alts), layer_alts, layer_r0s, layer_L0s, 1)
    return numpy.array(builder.make_covariance_matrix(), dtype=float)


def slope_index(order, n_sub):
    """For sensors listed in `order`: index of each slope of that listing inside the canonical (0,1,2..) listing"""
    starts = numpy.concatenate([[0], numpy.cumsum([2 * n for n in n_sub])])
    return numpy.concatenate([numpy.arange(starts[w], starts[w + 1]) for w in order])


def main():
    failures = []

    # A small MOAO-like system: two sodium LGS (different altitudes) and one off-axis NGS, 4x4 sub-apertures on a
    # 4 m telescope, with non point-symmetric masks and two sensing wavelengths
    tel_diam = 4.
    nx = 4
    mask_a = numpy.ones((nx, nx), dtype=int)
    mask_a[0, 0] = 0
    mask_a[0, 1] = 0
    mask_b = numpy.ones((nx, nx), dtype=int)
    mask_b[3, 0] = 0
    mask_c = numpy.ones((nx, nx), dtype=int)
    mask_c[1, 3] = 0
    mask_c[0, 3] = 0
    mask_c[2, 0] = 0
    masks = [mask_a, mask_b, mask_c]
    subap_diams = [tel_diam / nx] * 3
    gs_alts = [90000., 80000., 0]          # 0 marks a natural guide star (no cone effect)
    gs_pos = [[12., -5.], [-9., 14.], [20., 7.]]
    wavelengths = [589e-9, 589e-9, 700e-9]
    layer_alts = numpy.array([0., 6000., 14000.])
    layer_r0s = [0.2, 0.45, 0.7]
    layer_L0s = [25., 40., 60.]
    system = (masks, tel_diam, subap_diams, gs_alts, gs_pos, wavelengths, layer_alts, layer_r0s, layer_L0s)

    reference, n_sub = reference_covariance(*system)
    scale = numpy.abs(reference).max()
    tol = 1e-4 * scale

    matrices = {}
    for order in [(0, 1, 2), (2, 0, 1), (1, 2, 0), (0, 2, 1)]:
        mat = library_covariance(order, *system)
        matrices[order] = mat
        perm = slope_index(order, n_sub)
        expected = reference[numpy.ix_(perm, perm)]

        asym = numpy.abs(mat - mat.T).max()
        if asym > tol:
            failures.append("sensor order {}: matrix not symmetric (max |C - C^T| = {:.3e}, tol {:.1e})".format(order, asym, tol))
        min_eig = numpy.linalg.eigvalsh((mat + mat.T) / 2.).min()
        if min_eig < -1e-5 * scale:
            failures.append("sensor order {}: not positive semi-definite (min eigenvalue {:.3e}, largest entry {:.3e})".format(order, min_eig, scale))
        err = numpy.abs(mat - expected)
        if err.max() > tol:
            i, j = numpy.unravel_index(err.argmax(), err.shape)
            failures.append(
                "sensor order {}: entry ({}, {}) is {:.6e} but the covariance of the two slopes is {:.6e} "
                "(max error {:.2%} of the largest entry)".format(order, i, j, mat[i, j], expected[i, j], err.max() / scale))

    # Listing the same sensors in another order may only permute the blocks of the matrix
    base = matrices[(0, 1, 2)]
    for order, mat in matrices.items():
        perm = slope_index(order, n_sub)
        diff = numpy.abs(mat - base[numpy.ix_(perm, perm)]).max()
        if diff > tol:
            failures.append("sensor order {}: matrix is not the block permutation of the matrix for order (0, 1, 2) "
                            "(max difference {:.2%} of the largest entry)".format(order, diff / scale))

    if failures:
        print("C01 VIOLATED: slope covariance matrix differs from the covariance of the WFS slopes")
        for f in failures:
            print("  - " + f)
        return 1
    print("C01 holds: {} sensor orderings, {} slopes, max entry {:.3e}".format(len(matrices), reference.shape[0], scale))
    return 0


if __name__ == "__main__":
    sys.exit(main())
