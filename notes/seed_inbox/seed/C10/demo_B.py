"""
C10 demo B: two-step Fresnel propagation conserves power and is linear for
every propagation distance -- also when the same pair of input/output samplings
is used for several distances in a row, as when a beam is propagated from
turbulent layers at different altitudes onto one common output grid.

Exits 0 if the property holds for every call, 1 otherwise.
"""
import sys
import numpy
from aotools import opticalpropagation as op

RTOL = 1e-9


def power(U, d):
    return (numpy.abs(U) ** 2).sum() * d ** 2


def main():
    rng = numpy.random.RandomState(4321)
    failures = []
    ncalls = 0

    N = 32
    # (wavelength, input spacing, output spacing)
    samplings = [
        (500e-9, 2e-3, 3e-3),
        (1.65e-6, 5e-3, 2.5e-3),
        (10e-6, 1e-3, 1.4e-3),
    ]
    # layer altitudes / back-propagation distances, all on the same grids
    distances = [2000.0, 5000.0, -5000.0, 12500.0, -800.0, 2000.0]

    for wvl, d1, d2 in samplings:
        for z in distances:
            a = rng.normal(size=(N, N)) + 1j * rng.normal(size=(N, N))
            b = rng.normal(size=(N, N)) + 1j * rng.normal(size=(N, N))
            alpha, beta = 0.6 + 0.3j, -1.1 + 0.5j
            s = alpha * a + beta * b

            fa = op.twoStepFresnel(a.copy(), wvl, d1, d2, z)
            fb = op.twoStepFresnel(b.copy(), wvl, d1, d2, z)
            fs = op.twoStepFresnel(s.copy(), wvl, d1, d2, z)
            ncalls += 3

            tag = "wvl=%g d_in=%g d_out=%g z=%g" % (wvl, d1, d2, z)

            # power conservation
            for name, u, fu in (("a", a, fa), ("b", b, fb), ("a+b", s, fs)):
                p_in, p_out = power(u, d1), power(fu, d2)
                if not abs(p_out - p_in) <= RTOL * p_in:
                    failures.append("POWER  %s [%s]: in=%.12g out=%.12g (ratio %.6g)"
                                    % (tag, name, p_in, p_out, p_out / p_in))

            # linearity
            lin = alpha * fa + beta * fb
            err = numpy.abs(fs - lin).max() / numpy.abs(lin).max()
            if not err <= RTOL:
                failures.append("LINEAR %s: rel err %.3g" % (tag, err))

    if failures:
        print("C10 violated by twoStepFresnel in %d check(s):" % len(failures))
        for f in failures:
            print("  " + f)
        return 1
    print("C10 holds for twoStepFresnel over %d calls" % ncalls)
    return 0


if __name__ == "__main__":
    sys.exit(main())
