"""
C10 demo A: angular-spectrum propagation conserves power and is linear for ANY
wavelength / sampling combination, including grids sampled finer than the
wavelength (long-wavelength or microscopic set-ups).

Exits 0 if the property holds for every case, 1 otherwise.
"""
import sys
import numpy
from aotools import opticalpropagation as op

RTOL = 1e-9


def power(U, d):
    return (numpy.abs(U) ** 2).sum() * d ** 2


def main():
    rng = numpy.random.RandomState(1234)
    failures = []

    # (wavelength, input spacing): from the usual "spacing >> wavelength" regime
    # down to grids that sample finer than the wavelength.
    geometries = [
        (500e-9, 4.2 / 512),     # visible light, telescope-pupil sampling
        (1.65e-6, 1e-4),         # H band, fine sampling
        (10e-6, 20e-6),          # thermal IR, spacing = 2 wavelengths
        (10e-6, 8e-6),           # spacing just below one wavelength
        (1e-3, 0.4e-3),          # THz beam, spacing = 0.4 wavelengths
        (3e-2, 2e-3),            # microwave, spacing = wavelength / 15
    ]
    N = 32
    for wvl, d1 in geometries:
        for mag in (1.0, 0.5, 1.75):
            d2 = mag * d1
            for zsign in (+1, -1):
                z = zsign * 40 * N * d1 ** 2 / wvl
                a = rng.normal(size=(N, N)) + 1j * rng.normal(size=(N, N))
                b = rng.normal(size=(N, N)) + 1j * rng.normal(size=(N, N))
                alpha, beta = 0.7 - 0.2j, -1.3 + 0.4j
                s = alpha * a + beta * b

                fa = op.angularSpectrum(a.copy(), wvl, d1, d2, z)
                fb = op.angularSpectrum(b.copy(), wvl, d1, d2, z)
                fs = op.angularSpectrum(s.copy(), wvl, d1, d2, z)

                tag = "wvl=%g d_in=%g d_out=%g z=%g" % (wvl, d1, d2, z)

                # power conservation
                p_in, p_out = power(a, d1), power(fa, d2)
                if not abs(p_out - p_in) <= RTOL * p_in:
                    failures.append("POWER  %s: in=%.12g out=%.12g (ratio %.6f)"
                                    % (tag, p_in, p_out, p_out / p_in))

                # linearity
                lin = alpha * fa + beta * fb
                err = numpy.abs(fs - lin).max() / numpy.abs(lin).max()
                if not err <= RTOL:
                    failures.append("LINEAR %s: rel err %.3g" % (tag, err))

    if failures:
        print("C10 violated by angularSpectrum in %d case(s):" % len(failures))
        for f in failures:
            print("  " + f)
        return 1
    print("C10 holds for angularSpectrum on all %d geometries" % len(geometries))
    return 0


if __name__ == "__main__":
    sys.exit(main())
