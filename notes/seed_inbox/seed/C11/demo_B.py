"""
C11 demo B: all propagators evaluate the same Fresnel integral, for every magnification.

One collimated Gaussian beam (plus a structured, off-axis test field) is propagated over the same
path onto output grids of several different spacings, the way one would scan the output sampling
of a beam.  For every output spacing d2 = m*d1 check that
  * angularSpectrum reproduces the analytic Gaussian beam (width, curvature, Gouy phase) on the
    output grid,
  * angularSpectrum and twoStepFresnel, whose output grids coincide, return the same field,
  * propagating back with 1/m recovers the input up to a constant phase,
  * and for m = 1 the group law (split of z, -z undoes +z) holds.

Exit status 0 if all of that holds, 1 otherwise.
"""
import sys
import numpy
from aotools import opticalpropagation as op

failures = []


def rel_err(a, b):
    return numpy.abs(a - b).max() / numpy.abs(b).max()


def check(name, err, tol):
    if not (err <= tol):
        failures.append("%s: relative error %.3g (tolerance %.1g)" % (name, err, tol))


def grid(N, d):
    c = d * numpy.arange(-N / 2, N / 2)
    return numpy.meshgrid(c, c)


def gaussian_beam(N, d, wvl, w0, z):
    """Analytic paraxial Gaussian beam with waist w0 at z = 0 (carrier exp(ikz) removed)."""
    k = 2 * numpy.pi / wvl
    zR = numpy.pi * w0 ** 2 / wvl
    x, y = grid(N, d)
    q0 = -1j * zR
    q = z + q0
    return (q0 / q) * numpy.exp(1j * k * (x ** 2 + y ** 2) / (2 * q))


N = 256
d1 = 0.25e-3
w0 = 5e-3

for wvl, z in ((1.0e-6, 60.), (0.5e-6, 45.)):
    zR = numpy.pi * w0 ** 2 / wvl
    beam = gaussian_beam(N, d1, wvl, w0, 0.)
    x1, y1 = grid(N, d1)
    # structured field: two displaced, tilted Gaussians (no symmetry, well inside the grid)
    struct = (numpy.exp(-((x1 - 4e-3) ** 2 + (y1 + 2.5e-3) ** 2) / (3e-3) ** 2) * numpy.exp(2j * numpy.pi * x1 / 4e-3)
              + 0.6j * numpy.exp(-((x1 + 6e-3) ** 2 + (y1 - 5e-3) ** 2) / (2e-3) ** 2))

    for m in (1.0, 1.5, 2.0, 0.75):
        d2 = m * d1
        tag = "wvl=%.2g z=%g m=%.3g" % (wvl, z, m)

        # analytic Gaussian beam on the output grid
        got = op.angularSpectrum(beam, wvl, d1, d2, z)
        want = gaussian_beam(N, d2, wvl, w0, z)
        check(tag + ": angularSpectrum vs analytic Gaussian beam (complex field)", rel_err(got, want), 1e-4)
        x2, y2 = grid(N, d2)
        I = numpy.abs(got) ** 2
        w_meas = numpy.sqrt(2 * (I * (x2 ** 2 + y2 ** 2)).sum() / I.sum())   # <r^2> = w^2/2
        w_true = w0 * numpy.sqrt(1 + (z / zR) ** 2)
        check(tag + ": beam width w(z)", abs(w_meas - w_true) / w_true, 1e-4)
        gouy = -numpy.angle(got[N // 2, N // 2])
        check(tag + ": on-axis Gouy phase", abs(gouy - numpy.arctan(z / zR)), 1e-4)

        # propagator pair on matching grids
        a = op.angularSpectrum(struct, wvl, d1, d2, z)
        if m != 1:
            t = op.twoStepFresnel(struct, wvl, d1, d2, z)
            check(tag + ": angularSpectrum vs twoStepFresnel on the same grid", rel_err(a, t), 1e-3)

        # inverse with reciprocal magnification
        rec = op.angularSpectrum(a, wvl, d2, d1, -z)
        ph = numpy.vdot(struct, rec)
        ph /= abs(ph)
        check(tag + ": back-propagation with 1/m recovers the input", rel_err(rec / ph, struct), 1e-7)

        if m == 1:
            half = op.angularSpectrum(op.angularSpectrum(struct, wvl, d1, d1, 0.35 * z), wvl, d1, d1, 0.65 * z)
            check(tag + ": split 0.35z + 0.65z equals single step", rel_err(half, a), 1e-9)

if failures:
    print("C11 VIOLATED (%d checks failed):" % len(failures))
    for f in failures[:14]:
        print("  " + f)
    if len(failures) > 14:
        print("  ... and %d more" % (len(failures) - 14))
    sys.exit(1)
print("C11 demo B: all propagator-agreement checks passed")
sys.exit(0)
