"""
C11 demo A: angular-spectrum propagation is a one-parameter group for every grid size.

For square grids of even AND odd side length, with random complex fields and an off-axis
Gaussian beam, check that
  * +z followed by -z returns the input,
  * any split z = z1 + z2 (including splits with a negative part) gives the same field as one step,
  * a vanishing distance tends to the identity (continuity with the z == 0 case),
  * with magnification m, propagating back with 1/m recovers the input up to a constant phase.

Exit status 0 if all of that holds, 1 otherwise.
"""
import sys
import numpy
from aotools import opticalpropagation as op

TOL = 1e-8
failures = []


def rel_err(a, b):
    return numpy.abs(a - b).max() / numpy.abs(b).max()


def check(name, err, tol=TOL):
    if not (err <= tol):
        failures.append("%s: relative error %.3g (tolerance %.1g)" % (name, err, tol))


def fields(N, d, rng):
    yield "random", rng.normal(size=(N, N)) + 1j * rng.normal(size=(N, N))
    c = d * numpy.arange(-N / 2, N / 2)
    x, y = numpy.meshgrid(c, c)
    w0 = N * d / 10.
    x0, y0 = 3.2 * d, -5.7 * d
    g = numpy.exp(-((x - x0) ** 2 + (y - y0) ** 2) / w0 ** 2) * numpy.exp(2j * numpy.pi * x / (9 * d))
    yield "offaxis-gaussian", g


rng = numpy.random.default_rng(20240911)
wvl = 0.8e-6
for N in (32, 33, 64, 65, 81):
    d = 2e-3
    z = 0.3 * N * d ** 2 / wvl
    for fname, E in fields(N, d, rng):
        tag = "N=%d %s" % (N, fname)
        E0 = E.copy()

        fwd = op.angularSpectrum(E, wvl, d, d, z)
        back = op.angularSpectrum(fwd, wvl, d, d, -z)
        check(tag + ": +z then -z returns the input", rel_err(back, E0))

        for z1 in (0.25 * z, 0.7 * z, 1.6 * z, -0.4 * z):
            two = op.angularSpectrum(op.angularSpectrum(E, wvl, d, d, z1), wvl, d, d, z - z1)
            check(tag + ": split z1=%.3g + z2=%.3g equals single step" % (z1, z - z1), rel_err(two, fwd))

        three = E
        for part in (0.5 * z, 0.3 * z, 0.2 * z):
            three = op.angularSpectrum(three, wvl, d, d, part)
        check(tag + ": three-step program equals single step", rel_err(three, fwd))

        tiny = op.angularSpectrum(E, wvl, d, d, 1e-9 * z)
        check(tag + ": distance -> 0 tends to the identity", rel_err(tiny, E0), 1e-6)

        for m in (0.6, 1.7):
            out = op.angularSpectrum(E, wvl, d, m * d, z)
            rec = op.angularSpectrum(out, wvl, m * d, d, -z)
            phase = numpy.vdot(E0, rec)
            phase /= abs(phase)
            check(tag + ": m=%.2g then 1/m recovers input up to a constant phase" % m,
                  rel_err(rec / phase, E0), 1e-7)

if failures:
    print("C11 VIOLATED (%d checks failed):" % len(failures))
    for f in failures[:12]:
        print("  " + f)
    if len(failures) > 12:
        print("  ... and %d more" % (len(failures) - 12))
    sys.exit(1)
print("C11 demo A: all group-law checks passed")
sys.exit(0)
