"""C16 / binning: binImgs(data, n) must return exactly the n x n block sums
(total flux preserved) for images and stacks -- for every n dividing the
shape, and no matter how often / in which order the same frame is binned."""
import sys
import numpy
from aotools import interpolation


def block_sums(a, n):
    s = a.shape
    return a.reshape(s[:-2] + (s[-2] // n, n, s[-1] // n, n)).sum(axis=(-3, -1))


def main():
    rng = numpy.random.RandomState(16)
    failures = []

    # one detector frame, binned at several factors one after the other
    frame = rng.poisson(50., size=(24, 36)).astype(float)   # integers: sums are exact
    expected = {n: block_sums(frame, n) for n in (2, 3, 4, 6, 12)}
    flux = frame.sum()
    for n in (2, 3, 4, 6, 12):
        out = interpolation.binImgs(frame, n)
        if out.shape != expected[n].shape:
            failures.append("image n=%d: shape %s != %s" % (n, out.shape, expected[n].shape))
        elif not numpy.array_equal(out, expected[n]):
            failures.append("image n=%d: not the %dx%d block sums (max err %g)"
                            % (n, n, n, numpy.abs(out - expected[n]).max()))
        if out.sum() != flux:
            failures.append("image n=%d: flux %r != %r" % (n, out.sum(), flux))

    # a stack: binning the stack must agree with binning each of its frames
    stack = rng.poisson(20., size=(3, 16, 16)).astype(float)
    exp_stack = block_sums(stack, 4)
    out_stack = interpolation.binImgs(stack, 4)
    if not numpy.array_equal(out_stack, exp_stack):
        failures.append("stack n=4: not the block sums")
    for k in range(stack.shape[0]):
        out_k = interpolation.binImgs(stack[k], 4)
        if not numpy.array_equal(out_k, exp_stack[k]):
            failures.append("stack frame %d binned alone differs from the block sums "
                            "(max err %g)" % (k, numpy.abs(out_k - exp_stack[k]).max()))
        if out_k.sum() != exp_stack[k].sum():
            failures.append("stack frame %d: flux not preserved" % k)

    if failures:
        print("C16 binning property VIOLATED:")
        for f in failures:
            print("  -", f)
        return 1
    print("C16 binning property holds")
    return 0


if __name__ == "__main__":
    sys.exit(main())
