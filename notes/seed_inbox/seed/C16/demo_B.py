"""C16 / zoom: spline zoom treats complex data as real + i*imag, returns the
input when the size is unchanged and passes through the original samples when
the new grid contains the old nodes -- for both entry points (zoom, zoom_rbs),
orders 1, 3, 5 and every complex precision."""
import sys
import warnings
import numpy
from aotools import interpolation

warnings.simplefilter("ignore")


def main():
    rng = numpy.random.RandomState(1616)
    failures = []
    N = 9
    for dtype in (numpy.complex128, numpy.complex64):
        field = (rng.standard_normal((N, N)) + 1j * rng.standard_normal((N, N))).astype(dtype)
        re = field.real.astype(float)
        im = field.imag.astype(float)
        for name in ("zoom", "zoom_rbs"):
            fn = getattr(interpolation, name)
            for order in (1, 3, 5):
                tag = "%s(%s, order=%d)" % (name, numpy.dtype(dtype).name, order)

                # (a) complex == real-part zoom + i * imag-part zoom
                for newN in (N, 14, 2 * (N - 1) + 1, 30):
                    out = fn(field, (newN, newN), order)
                    ref = fn(re, (newN, newN), order) + 1j * fn(im, (newN, newN), order)
                    if out.shape != ref.shape or not numpy.allclose(out, ref, rtol=0, atol=1e-6):
                        failures.append("%s -> %d: differs from zoom(real)+1j*zoom(imag), max err %g"
                                        % (tag, newN, numpy.abs(out - ref).max()))

                # (b) unchanged size returns the input
                same = fn(field, (N, N), order)
                if not numpy.allclose(same, field, rtol=0, atol=1e-6):
                    failures.append("%s same size: input not returned, max err %g"
                                    % (tag, numpy.abs(same - field).max()))

                # (c) new grid contains the old nodes -> original samples pass through
                k = 3
                fine = fn(field, (k * (N - 1) + 1,) * 2, order)
                if not numpy.allclose(fine[::k, ::k], field, rtol=0, atol=1e-6):
                    failures.append("%s refine x%d: original samples not reproduced, max err %g"
                                    % (tag, k, numpy.abs(fine[::k, ::k] - field).max()))

    if failures:
        print("C16 zoom property VIOLATED:")
        for f in failures:
            print("  -", f)
        return 1
    print("C16 zoom property holds")
    return 0


if __name__ == "__main__":
    sys.exit(main())
