"""
C20 (arguments are never modified): zoom / zoom_rbs leave the array they are given bit-identical
(bytes, dtype, shape, strides), and so return the same result when called again with it.

Checked for the byte orders and types an image can arrive in: native float64 / float32 / complex128,
and the big-endian forms of the same data, as read from a FITS file (">f8", ">f4", ">c16").
"""
import sys

import numpy

from aotools import interpolation
import aotools


def snapshot(a):
    return (a.tobytes(), a.dtype.str, a.shape, a.strides, a.flags.writeable)


def main():
    rng = numpy.random.default_rng(20)
    base = rng.normal(size=(9, 12))
    base_c = base + 1j * rng.normal(size=(9, 12))

    swapped = ">" if sys.byteorder == "little" else "<"

    cases = [
        ("float64, native", base.copy()),
        ("float32, native", base.astype("=f4")),
        ("complex128, native", base_c.copy()),
        ("float64, byte-swapped (%sf8)" % swapped, base.astype(swapped + "f8")),
        ("float32, byte-swapped (%sf4)" % swapped, base.astype(swapped + "f4")),
        ("complex128, byte-swapped (%sc16)" % swapped, base_c.astype(swapped + "c16")),
    ]
    calls = [
        ("interpolation.zoom(a, (20, 31))", lambda a: interpolation.zoom(a, (20, 31))),
        ("interpolation.zoom(a, 17, order=1)", lambda a: interpolation.zoom(a, 17, order=1)),
        ("interpolation.zoom_rbs(a, (14, 25), order=2)", lambda a: interpolation.zoom_rbs(a, (14, 25), order=2)),
        ("aotools.zoom(a, (20, 31))", lambda a: aotools.zoom(a, (20, 31))),
    ]

    bad = []
    for what, arr in cases:
        for text, call in calls:
            a = arr.copy()
            values = numpy.array(a, dtype=a.dtype.newbyteorder("="))   # the numbers, in native order
            before = snapshot(a)
            first = call(a)
            after = snapshot(a)
            if after != before:
                changed = [n for n, x, y in zip(("bytes", "dtype", "shape", "strides", "writeable"), before, after)
                           if x != y]
                bad.append("%s modified its argument (%s): %s changed; max |a| was %.3g, is now %.3g"
                           % (text, what, ", ".join(changed), abs(values).max(),
                              numpy.nanmax(abs(a)) if a.size else 0))
            second = call(a)
            if not numpy.array_equal(first, second):
                bad.append("%s called twice on the same array (%s) gave different results" % (text, what))
            # the numbers are what counts, not how they are stored
            ref = call(values)
            if not numpy.array_equal(first, ref):
                bad.append("%s: result for %s differs from the result for the same numbers in native order"
                           % (text, what))

    if bad:
        print("C20 VIOLATED:")
        for b in bad:
            print("  -", b)
        return 1
    print("ok: zoom / zoom_rbs leave their argument untouched for every byte order and type tried")
    return 0


if __name__ == "__main__":
    sys.exit(main())
