"""
C20 (no hidden state): a seeded phase screen is a function of its arguments only.

Whatever was asked of the library before, ft_phase_screen / ft_sh_phase_screen called with the same
(r0, N, delta, L0, l0, seed) must return the same array.  The program below asks for a screen with a
large inner scale
  (1) as the very first call of a fresh interpreter, and
  (2) after another screen of the same geometry (same N, delta, L0) but a small inner scale has been made,
in both orders, and compares the results bit for bit.
"""
import hashlib
import os
import subprocess
import sys

import numpy

R0, N, DELTA, L0 = 0.15, 64, 0.05, 25.
L0_SMALL_INNER, L0_LARGE_INNER = 0.01, 0.5
SEED = 1234


def digest(a):
    a = numpy.ascontiguousarray(a)
    return hashlib.sha256(a.tobytes()).hexdigest() + " %s %s" % (a.dtype, a.shape)


def screens(order):
    """Make the screens in the given order of inner scales, return {(function, l0): digest}."""
    from aotools.turbulence import phasescreen
    out = {}
    for l0 in order:
        out["ft_phase_screen", l0] = digest(
            phasescreen.ft_phase_screen(R0, N, DELTA, L0, l0, seed=SEED))
        out["ft_sh_phase_screen", l0] = digest(
            phasescreen.ft_sh_phase_screen(R0, N, DELTA, L0, l0, seed=SEED))
    return out


def fresh(order):
    """The same, in a fresh interpreter (nothing has been called before)."""
    txt = subprocess.run([sys.executable, os.path.abspath(__file__), "--child"] + [repr(l0) for l0 in order],
                         check=True, stdout=subprocess.PIPE, universal_newlines=True).stdout
    res = {}
    for line in txt.splitlines():
        if line.count("|") != 2:
            continue  # unrelated noise on stdout
        name, l0, dig = line.split("|")
        res[name, float(l0)] = dig
    return res


def child(order):
    for (name, l0), dig in sorted(screens(order).items()):
        print("%s|%r|%s" % (name, l0, dig))
    return 0


def main():
    bad = []

    alone_large = fresh([L0_LARGE_INNER])
    alone_small = fresh([L0_SMALL_INNER])
    small_then_large = fresh([L0_SMALL_INNER, L0_LARGE_INNER])
    large_then_small = fresh([L0_LARGE_INNER, L0_SMALL_INNER])
    here = screens([L0_SMALL_INNER, L0_LARGE_INNER, L0_SMALL_INNER])

    for name in ("ft_phase_screen", "ft_sh_phase_screen"):
        for l0, alone in ((L0_LARGE_INNER, alone_large), (L0_SMALL_INNER, alone_small)):
            ref = alone[name, l0]
            for label, run in (("after a screen with l0=%g" % L0_SMALL_INNER, small_then_large),
                               ("after a screen with l0=%g" % L0_LARGE_INNER, large_then_small),
                               ("in this process (small, large, small)", here)):
                if run[name, l0] != ref:
                    bad.append("%s(r0=%g, N=%d, delta=%g, L0=%g, l0=%g, seed=%d) %s differs from the same "
                               "call made first in a fresh interpreter"
                               % (name, R0, N, DELTA, L0, l0, SEED, label))

    # and, of course, the inner scale has to matter at all
    if alone_large["ft_phase_screen", L0_LARGE_INNER] == alone_small["ft_phase_screen", L0_SMALL_INNER]:
        bad.append("inner scale has no effect on the screen (test is vacuous)")

    if bad:
        print("C20 VIOLATED: the result of a call depends on the calls made before it")
        for b in bad:
            print("  -", b)
        return 1
    print("ok: seeded screens depend on their arguments only, whatever was called before")
    return 0


if __name__ == "__main__":
    if len(sys.argv) > 1 and sys.argv[1] == "--child":
        sys.exit(child([float(a) for a in sys.argv[2:]]))
    sys.exit(main())
