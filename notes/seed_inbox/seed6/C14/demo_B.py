"""C14 demo B: findActiveSubaps returns EXACTLY the grid cells whose mean mask value is at least the threshold.

Checked for a range of thresholds including the boundary values 0 (every cell qualifies, since a mean of a 0/1 mask
is never negative) and 1 (only completely filled cells), and for a negative threshold and a mask with a central
obscuration.  Also: the selected set shrinks monotonically with the threshold, and the fill factors returned agree
with computeFillFactor when the mask size is a multiple of the sub-aperture count.
"""
import sys

import numpy

from aotools.functions.pupil import circle
from aotools.wfs.wfslib import findActiveSubaps, computeFillFactor


def reference(subaps, mask, threshold):
    sx = mask.shape[0] / float(subaps)
    sy = mask.shape[1] / float(subaps)
    coords, fills = [], []
    for x in range(subaps):
        for y in range(subaps):
            cell = mask[int(round(x * sx)):int(round((x + 1) * sx)), int(round(y * sy)):int(round((y + 1) * sy))]
            m = float(numpy.asarray(cell, dtype=numpy.float64).sum()) / cell.size
            if m >= threshold:
                coords.append((x * sx, y * sy))
                fills.append(m)
    return coords, fills


def as_set(coords):
    return set((float(a), float(b)) for a, b in numpy.asarray(coords).reshape(-1, 2))


masks = {
    "circle(20, 48)": circle(20, 48),
    "annulus circle(24,48)-circle(7,48)": circle(24, 48) - circle(7, 48),
    "off-centre circle(9, 40, (6, -4))": circle(9, 40, (6, -4)),
    "bool circle(14, 32)": circle(14, 32).astype(bool),
}
thresholds = [-0.25, 0.0, 1e-12, 0.1, 0.25, 0.5, 0.75, 1.0]

bad = []
for name, mask in masks.items():
    for subaps in (4, 8):
        previous = None
        for thr in thresholds:
            coords, fills = findActiveSubaps(subaps, mask, thr, returnFill=True)
            only = findActiveSubaps(subaps, mask, thr)
            ref_coords, ref_fills = reference(subaps, mask, thr)
            got = as_set(coords)
            if got != set(ref_coords) or len(coords) != len(ref_coords):
                missing = sorted(set(ref_coords) - got)
                extra = sorted(got - set(ref_coords))
                bad.append("%s, subaps=%d, threshold=%r: %d cells returned, %d have mean >= threshold; "
                           "missing e.g. %s, extra e.g. %s"
                           % (name, subaps, thr, len(coords), len(ref_coords), missing[:2], extra[:2]))
            elif not numpy.array_equal(numpy.asarray(fills), numpy.asarray(ref_fills)):
                bad.append("%s, subaps=%d, threshold=%r: fill factors differ from the cell means" % (name, subaps, thr))
            if as_set(only) != got:
                bad.append("%s, subaps=%d, threshold=%r: returnFill changes the selected set" % (name, subaps, thr))
            if len(coords):
                again = computeFillFactor(mask, numpy.asarray(coords), mask.shape[0] // subaps)
                if not numpy.array_equal(again, numpy.asarray(fills)):
                    bad.append("%s, subaps=%d, threshold=%r: computeFillFactor disagrees with returned fills"
                               % (name, subaps, thr))
            if previous is not None and not got <= previous:
                bad.append("%s, subaps=%d: set at threshold %r is not a subset of the set at the lower threshold"
                           % (name, subaps, thr))
            previous = got
        # threshold 0 on a non-negative mask selects the whole grid
        n0 = len(findActiveSubaps(subaps, mask, 0.0))
        if n0 != subaps * subaps:
            bad.append("%s, subaps=%d: threshold 0 selected %d of %d cells (every cell has mean >= 0)"
                       % (name, subaps, n0, subaps * subaps))

if bad:
    print("C14 VIOLATED: findActiveSubaps is not the exact set {cells : mean(mask over cell) >= threshold}")
    for line in bad[:12]:
        print("  " + line)
    if len(bad) > 12:
        print("  ... and %d more" % (len(bad) - 12))
    sys.exit(1)
print("ok: findActiveSubaps matched the cell-mean reference for all masks / thresholds")
sys.exit(0)
