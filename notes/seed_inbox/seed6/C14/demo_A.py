"""C14 demo A: circle(r, n, c, origin) is EXACTLY the indicator of the pixel centres within distance r of c.

The radius is a float and is taken at face value: a pixel centre whose (real) distance from the centre exceeds r by
any amount, however small, is outside.  Radii of the form r = float(sqrt(k)) are what a caller gets when asking for
"the circle through pixel (a, b)"; when sqrt(k) is irrational the float r is strictly below or above the true
distance and the pixel is exactly outside or inside accordingly.  The reference below is evaluated in rational
arithmetic on the exact values of the float arguments.
"""
import sys
from fractions import Fraction as F

import numpy

from aotools.functions.pupil import circle


def reference(r, n, c=(0, 0), origin="middle"):
    out = numpy.zeros((n, n))
    off = F(n, 2) if origin == "middle" else F(0)
    rr = F(float(r)) ** 2
    cx, cy = F(float(c[0])), F(float(c[1]))
    for i in range(n):          # row    -> y
        for j in range(n):      # column -> x
            x = F(2 * j + 1, 2) - off - cx
            y = F(2 * i + 1, 2) - off - cy
            if x * x + y * y <= rr:
                out[i, j] = 1
    return out


cases = []
# radii that are exact lattice distances (boundary-touching, representable): the touched pixels are inside
for n, r in ((5, 1.0), (5, 2.0), (9, 5.0), (8, 2.5), (10, 2.5), (11, 5.0), (12, 6.5)):
    cases.append((r, n, (0, 0), "middle"))
# radii r = float(sqrt(a^2 + b^2)) through a pixel (a, b) whose distance is irrational
for n, k in ((8, 4.5), (8, 6.5), (9, 13.0), (9, 18.0), (12, 4.5), (12, 60.5), (13, 13.0), (13, 26.0), (13, 29.0),
             (13, 37.0), (13, 52.0), (13, 61.0), (13, 72.0), (9, 2.0), (9, 5.0), (9, 10.0), (8, 0.5), (8, 2.5)):
    cases.append((float(numpy.sqrt(k)), n, (0, 0), "middle"))
# the same with shifted / half-pixel centres and the corner origin
cases.append((float(numpy.sqrt(13.0)), 12, (1, -1), "middle"))
cases.append((float(numpy.sqrt(13.0)), 12, (0.5, 0.5), "middle"))
cases.append((float(numpy.sqrt(13.0)), 12, (5.5, 6.5), "corner"))
cases.append((float(numpy.sqrt(6.5)), 12, (6, 5), "corner"))
cases.append((float(numpy.sqrt(4.5)), 10, (5, 5), "corner"))

bad = []
for r, n, c, origin in cases:
    got = circle(r, n, c, origin)
    ref = reference(r, n, c, origin)
    if got.shape != ref.shape or not (got == ref).all():
        wrong = numpy.argwhere(got != ref)
        bad.append("circle(%r, %d, %r, %r): %d pixel(s) differ from the exact indicator, e.g. [row, col] = %s "
                   "(got %g, exact %g)" % (r, n, c, origin, len(wrong), wrong[0].tolist(),
                                           got[tuple(wrong[0])], ref[tuple(wrong[0])]))

# nestedness across the same radii (a consequence of exactness)
for n in (9, 13):
    rs = sorted(float(numpy.sqrt(k)) for k in (2, 5, 8, 10, 13, 17, 18, 20))
    masks = [circle(r, n) for r in rs]
    for a, b, ra, rb in zip(masks, masks[1:], rs, rs[1:]):
        if (a > b).any():
            bad.append("circle(%r, %d) is not contained in circle(%r, %d)" % (ra, n, rb, n))

if bad:
    print("C14 VIOLATED: circle() is not the exact indicator of pixel centres within distance r")
    for line in bad:
        print("  " + line)
    sys.exit(1)
print("ok: circle() matched the exact rational indicator on %d cases" % len(cases))
sys.exit(0)
