"""C10: propagators are linear and conserve power.

Checks linearity (additivity and complex homogeneity) and power conservation of
lensAgainst / oneStepFresnel / twoStepFresnel / angularSpectrum for a field whose
samples are all real numbers (a flat wavefront behind an off-axis, vignetted
pupil -- stored as complex128 with zero imaginary part) superposed with a
general complex field.
"""
import sys
import numpy
from aotools import opticalpropagation as op

N = 32
wvl = 633e-9
d1 = 2e-3
f = 1.5
z = 400.0
rng = numpy.random.default_rng(10)

# real-valued field: uniform illumination of an off-axis elliptical pupil with a
# linear apodisation across it (no mirror symmetry in either axis)
y, x = numpy.mgrid[:N, :N] - N // 2
pupil = (((x - 3) / 9.0) ** 2 + ((y + 5) / 6.0) ** 2 <= 1.0) * (1.0 + 0.04 * y + 0.02 * x)
a = pupil.astype(complex)                      # complex128, imaginary part exactly 0
b = rng.normal(size=(N, N)) + 1j * rng.normal(size=(N, N))
c = 0.3 - 1.1j

props = {
    "lensAgainst(f=+1.5)": (lambda U: op.lensAgainst(U, wvl, d1, f), wvl * abs(f) / (N * d1)),
    "lensAgainst(f=-1.5)": (lambda U: op.lensAgainst(U, wvl, d1, -f), wvl * abs(f) / (N * d1)),
    "oneStepFresnel": (lambda U: op.oneStepFresnel(U, wvl, d1, z), wvl * abs(z) / (N * d1)),
    "twoStepFresnel(m=1.5)": (lambda U: op.twoStepFresnel(U, wvl, d1, 1.5 * d1, -z), 1.5 * d1),
    "angularSpectrum(m=0.5)": (lambda U: op.angularSpectrum(U, wvl, d1, 0.5 * d1, z), 0.5 * d1),
}

bad = []
for name, (P, dout) in props.items():
    Pa, Pb = P(a), P(b)
    scale = numpy.abs(Pa).max() + numpy.abs(Pb).max()
    add = numpy.abs(P(a + b) - (Pa + Pb)).max() / scale
    hom = numpy.abs(P(c * a) - c * Pa).max() / scale
    pw = abs((numpy.abs(Pa) ** 2).sum() * dout ** 2 / ((numpy.abs(a) ** 2).sum() * d1 ** 2) - 1)
    print("%-24s additivity %.2e  homogeneity %.2e  power %.2e" % (name, add, hom, pw))
    if add > 1e-10:
        bad.append("%s: P(a+b) != P(a)+P(b) for a real-valued a (rel. err %.3g)" % (name, add))
    if hom > 1e-10:
        bad.append("%s: P(c*a) != c*P(a) for complex c, real-valued a (rel. err %.3g)" % (name, hom))
    if pw > 1e-10:
        bad.append("%s: power not conserved for real-valued a (rel. err %.3g)" % (name, pw))

if bad:
    print("PROPERTY C10 VIOLATED:")
    for line in bad:
        print("  " + line)
    sys.exit(1)
print("ok")
sys.exit(0)
