"""C10: propagators are linear and conserve power -- also when several threads
of one process propagate their own, unrelated fields at the same time (a wavefront
sensor per thread, a thread pool over wavelengths or guide stars, ...).

Phase 1 runs every propagator sequentially on the calling thread.
Phase 2 runs the same checks from a few worker threads at once; each thread owns
its inputs and looks only at its own outputs.
"""
import sys
import threading
import numpy
from aotools import opticalpropagation as op

N = 256
wvl = 1.65e-6
d1 = 4e-3
NTHREADS = 4
ROUNDS = 25
TOL = 1e-9


def make_case(seed):
    rng = numpy.random.default_rng(seed)
    amp = 10.0 ** rng.uniform(-1, 1)           # every case carries a different power
    a = amp * (rng.normal(size=(N, N)) + 1j * rng.normal(size=(N, N)))
    b = amp * (rng.normal(size=(N, N)) + 1j * rng.normal(size=(N, N)))
    c = complex(rng.normal(), rng.normal())
    mag = [0.5, 1.0, 1.25, 2.0][seed % 4]
    z = [1500.0, -800.0, 2500.0, -3000.0][seed % 4]
    f = [2.0, -0.7, 11.0, 0.3][seed % 4]
    return a, b, c, mag, z, f


def check(case):
    """Largest relative violation of additivity / homogeneity / power for one case."""
    a, b, c, mag, z, f = case
    d2 = mag * d1
    props = [
        ("angularSpectrum", lambda U: op.angularSpectrum(U, wvl, d1, d2, z), d2),
        ("twoStepFresnel", lambda U: op.twoStepFresnel(U, wvl, d1, d2, z), d2),
        ("oneStepFresnel", lambda U: op.oneStepFresnel(U, wvl, d1, z), wvl * abs(z) / (N * d1)),
        ("lensAgainst", lambda U: op.lensAgainst(U, wvl, d1, f), wvl * abs(f) / (N * d1)),
    ]
    worst = (0.0, "")
    pin = (numpy.abs(a) ** 2).sum() * d1 ** 2
    for name, P, dout in props:
        Pa = P(a)
        Pb = P(b)
        lin = P(a + c * b) - (Pa + c * Pb)
        e_lin = numpy.abs(lin).max() / (numpy.abs(Pa).max() + abs(c) * numpy.abs(Pb).max())
        e_pow = abs((numpy.abs(Pa) ** 2).sum() * dout ** 2 / pin - 1.0)
        for e, what in ((e_lin, "P(a+c*b) != P(a)+c*P(b)"), (e_pow, "output power != input power")):
            if e > worst[0]:
                worst = (e, "%s: %s (rel. err %.3g)" % (name, what, e))
    return worst


# ---- phase 1: one thread ----------------------------------------------------
seq_worst = max(check(make_case(s)) for s in range(NTHREADS))
print("sequential : worst relative violation %.2e" % seq_worst[0])
if seq_worst[0] > TOL:
    print("PROPERTY C10 VIOLATED (sequential): " + seq_worst[1])
    sys.exit(1)

# ---- phase 2: the same cases, one per thread, at the same time ----------------
cases = [make_case(s) for s in range(NTHREADS)]
results = [(0.0, "")] * NTHREADS
start = threading.Barrier(NTHREADS)
stop = threading.Event()


def worker(i):
    start.wait()
    for _ in range(ROUNDS):
        if stop.is_set():
            break
        w = check(cases[i])
        if w[0] > results[i][0]:
            results[i] = w
        if w[0] > TOL:
            stop.set()


threads = [threading.Thread(target=worker, args=(i,)) for i in range(NTHREADS)]
for t in threads:
    t.start()
for t in threads:
    t.join()

par_worst = max(results)
print("%d threads  : worst relative violation %.2e" % (NTHREADS, par_worst[0]))
if par_worst[0] > TOL:
    print("PROPERTY C10 VIOLATED when propagating from several threads at once:")
    for i, r in enumerate(results):
        if r[0] > TOL:
            print("  thread %d: %s" % (i, r[1]))
    sys.exit(1)
print("ok")
sys.exit(0)
