"""C16: spline zoom is exact for polynomials up to the spline order -- for every target size,
including targets with only a handful of samples (smaller than or equal to the spline order),
for both zoom entry points and for real and complex data."""
import sys
import numpy
from aotools import interpolation

TOL = 1e-9
failures = []


def poly(u, v, deg):
    # a bivariate polynomial of degree `deg` in each variable, coefficients of order one
    pu = sum((k + 1.0) * u ** k for k in range(deg + 1))
    pv = sum((-1.0) ** k * (k + 2.0) * v ** k for k in range(deg + 1))
    return pu * pv


for order in (1, 3, 5):
    for n in (8, 11, 16):
        x = numpy.arange(n) / (n - 1.0)               # nodes, scaled to [0, 1]
        img = poly(x[:, None], x[None, :], order)
        for m in (2, 3, 4, 5, 6, 7, 9, n, 2 * n - 1, 3 * n):
            t = numpy.linspace(0, n - 1, m) / (n - 1.0)
            want = poly(t[:, None], t[None, :], order)
            scale = numpy.abs(want).max()
            for name, fn in (("zoom", interpolation.zoom), ("zoom_rbs", interpolation.zoom_rbs)):
                got = fn(img, m, order)
                err = numpy.abs(got - want).max() / scale
                if got.shape != (m, m) or not err < TOL:
                    failures.append("%s real  order=%d %dx%d -> %dx%d : rel. error %.3g"
                                    % (name, order, n, n, m, m, err))
                gotc = fn(img + 1j * img[::-1, :], (m, m), order)
                wantc = want + 1j * want[::-1, :]
                errc = numpy.abs(gotc - wantc).max() / scale
                if gotc.shape != (m, m) or not errc < TOL:
                    failures.append("%s cmplx order=%d %dx%d -> %dx%d : rel. error %.3g"
                                    % (name, order, n, n, m, m, errc))

if failures:
    print("C16 violated: zoom is not exact for polynomials of degree <= spline order")
    for f in failures:
        print("  " + f)
    sys.exit(1)
print("ok: zoom exact for polynomials up to the spline order at every target size")
sys.exit(0)
