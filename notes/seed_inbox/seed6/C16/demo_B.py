"""C16: binning by n returns exactly the n x n block sums (total flux preserved) for images and
stacks of every shape divisible by n -- square or not."""
import sys
import numpy
from aotools import interpolation

failures = []
rng = numpy.random.RandomState(16)


def block_sums(img, n):
    # independent reference: explicit loops over the output pixels
    h, w = img.shape[-2] // n, img.shape[-1] // n
    out = numpy.zeros(img.shape[:-2] + (h, w), dtype=img.dtype)
    for r in range(h):
        for c in range(w):
            out[..., r, c] = img[..., r * n:(r + 1) * n, c * n:(c + 1) * n].sum(axis=(-2, -1))
    return out


shapes = [(12, 12), (6, 6), (4, 8), (8, 4), (6, 18), (30, 10),
          (3, 12, 12), (5, 4, 8), (2, 12, 6), (4, 9, 3)]
for shape in shapes:
    for n in (1, 2, 3, 4, 6):
        if shape[-2] % n or shape[-1] % n:
            continue
        # integer-valued data: the block sums are exact in floating point too
        for dtype in (numpy.float64, numpy.int64):
            data = rng.randint(0, 1000, size=shape).astype(dtype)
            want = block_sums(data, n)
            try:
                got = interpolation.binImgs(data, n)
            except Exception as exc:
                failures.append("shape %s n=%d %s: raised %r" % (shape, n, numpy.dtype(dtype).name, exc))
                continue
            if got.shape != want.shape:
                failures.append("shape %s n=%d %s: output shape %s, expected %s (flux %s vs %s)"
                                % (shape, n, numpy.dtype(dtype).name, got.shape, want.shape,
                                   got.sum(), data.sum()))
            elif not numpy.array_equal(got, want):
                failures.append("shape %s n=%d %s: %d of %d block sums wrong"
                                % (shape, n, numpy.dtype(dtype).name,
                                   int((got != want).sum()), want.size))
            elif got.sum() != data.sum():
                failures.append("shape %s n=%d: total flux %s != %s" % (shape, n, got.sum(), data.sum()))

if failures:
    print("C16 violated: binImgs does not return the n x n block sums")
    for f in failures:
        print("  " + f)
    sys.exit(1)
print("ok: binImgs returns the block sums for square and non-square images and stacks")
sys.exit(0)
