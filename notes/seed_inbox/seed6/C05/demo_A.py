"""
C05: the von Karman infinite screen converges to, and stays at, the theoretical von Karman statistics of ITS OWN
r0 and L0 -- whatever other screens the process has made before it.

Several screens of one geometry but different r0 (the layers of an atmosphere) are made one after the other in
one process.  Each is advanced well past its initial FFT screen, and the structure function between neighbouring
pixels (along the new row, and between the new row and the one before it) is compared with the model
D(d) = 2 (C(0) - C(d)) for the r0 the screen was constructed with.  The shape / finiteness / one-row-shift clauses
are checked on the way.
"""
import sys
import numpy
from scipy.special import gamma, kv

from aotools.turbulence.infinitephasescreen import PhaseScreenVonKarman


def vk_covariance(r, r0, L0):
    r = numpy.asarray(r, dtype=float) + 1e-40
    x = 2 * numpy.pi * r / L0
    return ((L0 / r0) ** (5. / 3) * 2 ** (-5. / 6) * gamma(11. / 6) / numpy.pi ** (8. / 3)
            * ((24. / 5) * gamma(6. / 5)) ** (5. / 6) * x ** (5. / 6) * kv(5. / 6, x))


def check_screen(nx, pixel_scale, r0, L0, seed, n_burn, n_rows):
    problems = []
    screen = PhaseScreenVonKarman(nx, pixel_scale, r0, L0, random_seed=seed)
    for i in range(n_burn):
        screen.add_row()

    d_along = 0.
    d_across = 0.
    for i in range(n_rows):
        before = screen.scrn.copy()
        after = screen.add_row()
        if after.shape != (nx, nx) or not numpy.all(numpy.isfinite(after)):
            problems.append("r0=%g: screen of shape %s / non-finite values after %d rows" % (r0, after.shape, n_burn + i + 1))
            break
        if not numpy.array_equal(after[1:], before[:-1]):
            problems.append("r0=%g: row %d is not a one-row shift of the screen before it" % (r0, n_burn + i + 1))
            break
        d_along += numpy.mean((after[0, 1:] - after[0, :-1]) ** 2)
        d_across += numpy.mean((after[0] - after[1]) ** 2)
    d_along /= n_rows
    d_across /= n_rows

    d_model = 2 * (vk_covariance(0., r0, L0) - vk_covariance(pixel_scale, r0, L0))
    for name, d in (("along the new row", d_along), ("between the new row and the previous one", d_across)):
        ratio = d / d_model
        print("r0 = %-5g D(1 pixel) %-41s: measured %10.4f  model %10.4f  ratio %.3f" % (r0, name, d, d_model, ratio))
        if not 0.75 < ratio < 1.33:
            problems.append("r0=%g: structure function %s is %.2f x the von Karman model for this r0" % (r0, name, ratio))
    return problems


def main():
    nx, pixel_scale, L0 = 32, 0.1, 20.
    problems = []
    # three layers of one geometry, strongest first
    for seed, r0 in enumerate((0.1, 0.4, 0.05)):
        problems += check_screen(nx, pixel_scale, r0, L0, seed=100 + seed, n_burn=4 * nx, n_rows=1500)

    if problems:
        print("PROPERTY C05 VIOLATED:")
        for p in problems:
            print("  - " + p)
        return 1
    print("ok: every screen settles on the von Karman statistics of its own r0")
    return 0


if __name__ == "__main__":
    sys.exit(main())
