"""
C05: the von Karman infinite screen converges to, and stays at, the theoretical von Karman statistics for ALL sizes
and parameters -- here for screen sizes that arrive as NumPy integer scalars (numpy.uint8, as read from a header
or a configuration array) together with the number of stencil columns.

Each screen is advanced past its initial FFT screen; then, over a few hundred more rows, the one-row-shift / shape /
finiteness clauses are checked, and the structure function between neighbouring pixels is compared with the model
D(d) = 2 (C(0) - C(d)), separately in four bands of columns, both along the newly added row and between the new row
and the row before it (a new row that is not tied to the existing screen over its whole width shows up there).
"""
import sys
import warnings
import numpy
from scipy.special import gamma, kv

from aotools.turbulence.infinitephasescreen import PhaseScreenVonKarman


def vk_covariance(r, r0, L0):
    r = numpy.asarray(r, dtype=float) + 1e-40
    x = 2 * numpy.pi * r / L0
    return ((L0 / r0) ** (5. / 3) * 2 ** (-5. / 6) * gamma(11. / 6) / numpy.pi ** (8. / 3)
            * ((24. / 5) * gamma(6. / 5)) ** (5. / 6) * x ** (5. / 6) * kv(5. / 6, x))


def check_screen(nx, n_columns, pixel_scale, r0, L0, seed, n_rows):
    label = "N=%r, n_columns=%d" % (nx, n_columns)
    problems = []
    n = int(nx)
    with warnings.catch_warnings():
        warnings.simplefilter("ignore")
        screen = PhaseScreenVonKarman(nx, pixel_scale, r0, L0, random_seed=seed, n_columns=n_columns)
    if screen.scrn.shape != (n, n):
        return ["%s: initial screen has shape %s" % (label, screen.scrn.shape)]
    for i in range(2 * n):
        screen.add_row()

    bands = numpy.array_split(numpy.arange(n - 1), 4)
    d_along = numpy.zeros(4)
    d_across = numpy.zeros(4)
    for i in range(n_rows):
        before = screen.scrn.copy()
        after = screen.add_row()
        if after.shape != (n, n) or not numpy.all(numpy.isfinite(after)):
            problems.append("%s: screen of shape %s / non-finite values after %d rows" % (label, after.shape, 2 * n + i + 1))
            break
        if not numpy.array_equal(after[1:], before[:-1]):
            problems.append("%s: row %d is not a one-row shift of the screen before it" % (label, 2 * n + i + 1))
            break
        for b, cols in enumerate(bands):
            d_along[b] += numpy.mean((after[0, cols + 1] - after[0, cols]) ** 2)
            d_across[b] += numpy.mean((after[0, cols] - after[1, cols]) ** 2)
    d_along /= n_rows
    d_across /= n_rows

    d_model = 2 * (vk_covariance(0., r0, L0) - vk_covariance(pixel_scale, r0, L0))
    for name, d in (("along the new row", d_along), ("new row against the previous row", d_across)):
        ratios = d / d_model
        print("%-32s D(1 pixel) %-33s / model, by band of columns: %s" % (label, name, numpy.round(ratios, 2)))
        for b, ratio in enumerate(ratios):
            if not 0.6 < ratio < 1.6:
                problems.append("%s: structure function %s is %.1f x the von Karman model in columns %d..%d"
                                % (label, name, ratio, bands[b][0], bands[b][-1] + 1))
    return problems


def main():
    pixel_scale, r0, L0 = 0.05, 0.2, 20.
    problems = []
    cases = [(200, 2), (numpy.uint8(100), 2), (numpy.uint8(200), 2), (numpy.uint8(100), 4), (numpy.int64(200), 2)]
    for k, (nx, n_columns) in enumerate(cases):
        problems += check_screen(nx, n_columns, pixel_scale, r0, L0, seed=40 + k, n_rows=500)

    if problems:
        print("PROPERTY C05 VIOLATED:")
        for p in problems:
            print("  - " + p)
        return 1
    print("ok: every screen settles on the von Karman statistics over its whole width")
    return 0


if __name__ == "__main__":
    sys.exit(main())
