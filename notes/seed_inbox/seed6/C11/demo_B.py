"""C11: the propagators agree with theory and with each other -- on every call of a program of propagations.

One process, one sampling grid (N, d).  A short program of propagation steps is run and every step is compared
with its reference:
  * angularSpectrum of a Gaussian beam          vs the analytic beam (width, curvature, Gouy phase)
  * lensAgainst of a circular aperture          vs the Airy pattern, and (complex field, same grid, same
                                                   orientation) vs oneStepFresnel of the aperture times the lens phase
The steps are interleaved and repeated: the answer of a propagator must not depend on what was propagated before.
"""
import sys
import numpy
from scipy.special import j1
from aotools import opticalpropagation as op

N, d, wvl = 256, 1e-4, 633e-9
k = 2 * numpy.pi / wvl
c = (numpy.arange(N) - N // 2) * d
x, y = numpy.meshgrid(c, c)
rsq = x ** 2 + y ** 2
failures = []

def relerr(a, b):
    return float(numpy.abs(a - b).max() / numpy.abs(b).max())

def gaussian_step(z, w0=1.5e-3):
    zR = numpy.pi * w0 ** 2 / wvl
    U0 = numpy.exp(-rsq / w0 ** 2).astype(complex)
    w = w0 * numpy.sqrt(1 + (z / zR) ** 2)
    R = z * (1 + (zR / z) ** 2)
    ref = (w0 / w) * numpy.exp(-rsq / w ** 2) * numpy.exp(1j * k * rsq / (2 * R)) * numpy.exp(-1j * numpy.arctan(z / zR))
    out = op.angularSpectrum(U0, wvl, d, d, z)
    err = relerr(out, ref)
    width = numpy.sqrt(2 * (numpy.abs(out) ** 2 * x ** 2).sum() / (numpy.abs(out) ** 2).sum()) * numpy.sqrt(2)
    return "angularSpectrum Gaussian z=%g: field error %.2e, width %.4g mm (theory %.4g mm)" % (z, err, width * 1e3, w * 1e3), err < 1e-6

def lens_step(f, a=2.0e-3):
    pupil = (rsq <= a ** 2).astype(complex)
    out = op.lensAgainst(pupil, wvl, d, f)
    # same Fresnel integral through the one-step propagator: thin lens phase, then a distance f
    other = op.oneStepFresnel(pupil * numpy.exp(-1j * k * rsq / (2 * f)), wvl, d, f)
    e_pair = relerr(out, other)
    # Airy pattern on the focal-plane grid
    d2 = wvl * f / (N * d)
    r2 = numpy.sqrt(rsq) * (d2 / d)
    arg = 2 * numpy.pi * a * r2 / (wvl * f)
    arg[N // 2, N // 2] = 1.
    airy = (2 * j1(arg) / arg) ** 2
    airy[N // 2, N // 2] = 1.
    I = numpy.abs(out) ** 2
    e_airy = float(numpy.abs(I / I.max() - airy).max())
    return "lensAgainst f=%g: vs oneStepFresnel %.2e, vs Airy pattern %.2e" % (f, e_pair, e_airy), (e_pair < 1e-8 and e_airy < 0.03)

program = [("gauss", 8.0), ("lens", 1.0), ("gauss", 8.0), ("lens", 1.0), ("lens", 0.5), ("gauss", -5.0), ("gauss", 3.0)]
for i, (kind, arg) in enumerate(program):
    msg, ok = gaussian_step(arg) if kind == "gauss" else lens_step(arg)
    print("step %d  %-90s %s" % (i, msg, "ok" if ok else "VIOLATED"))
    if not ok:
        failures.append(i)

if failures:
    print("FAIL: propagators disagree with theory / each other at steps", failures,
          "of the program (the same calls are fine when made first)")
    sys.exit(1)
print("PASS")
