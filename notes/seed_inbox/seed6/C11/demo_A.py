"""C11: unit-magnification angular-spectrum propagation is a one-parameter group on every grid size.

For a range of grid sizes N (powers of two, smooth composites, primes, twice a prime) and random complex
fields: distance 0 is the identity, distances add under composition for any split of z, and -z undoes +z.
"""
import sys
import numpy
from aotools import opticalpropagation as op

rng = numpy.random.default_rng(11)
wvl = 633e-9
bad = []

def relerr(a, b):
    return float(numpy.abs(a - b).max() / numpy.abs(b).max())

for N in (32, 37, 46, 48, 61, 64, 100, 127):
    d = 2e-3 * 64 / N
    E = rng.standard_normal((N, N)) + 1j * rng.standard_normal((N, N))
    z = 0.35 * N * d * d / wvl          # a fraction of the critical-sampling distance

    e0 = relerr(op.angularSpectrum(E, wvl, d, d, 0.), E)
    back = op.angularSpectrum(op.angularSpectrum(E, wvl, d, d, z), wvl, d, d, -z)
    e_inv = relerr(back, E)

    whole = op.angularSpectrum(E, wvl, d, d, z)
    e_add = 0.
    for split in ((0.5, 0.5), (0.1, 0.9), (1.7, -0.7), (0.25, 0.25, 0.5)):
        U = E
        for s in split:
            U = op.angularSpectrum(U, wvl, d, d, s * z)
        e_add = max(e_add, relerr(U, whole))

    ok = e0 == 0 and e_inv < 1e-9 and e_add < 1e-9
    print("N=%4d  identity %.1e  inverse %.1e  additivity %.1e  %s" % (N, e0, e_inv, e_add, "ok" if ok else "VIOLATED"))
    if not ok:
        bad.append(N)

if bad:
    print("FAIL: angularSpectrum is not a group action (z then -z / split distances disagree) for N in", bad)
    sys.exit(1)
print("PASS")
