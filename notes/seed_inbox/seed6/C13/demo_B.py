"""C13 -- the Cartesian rendering returned by make_kl is zero outside the annulus, the returned pupil is the annulus
indicator, and inside the annulus every mode follows its own polar function (the one described by the returned
polar basis) at each pixel's (r, theta), to within the resampling error.

The polar function is evaluated at a pixel by bilinear interpolation of its samples on the native grid
(equal-area radii bas['radp'], angles 2 pi l / bas['np']), independently of the library's resampling code.
Fat and thin annuli, few and many modes (all within the library's own sampling rule nr * npp >= 15 * nmax).
"""
import contextlib
import io
import sys
import warnings

import numpy as np
from scipy.interpolate import RegularGridInterpolator

warnings.simplefilter('ignore')
from aotools.functions import karhunenLoeve as KL

TOL = 0.2     # of the mode's peak value; the genuine resampling error stays below 0.1 on these cases


def check(nmax, dim, ri, nr):
    out = io.StringIO()
    with contextlib.redirect_stdout(out):
        kl, var, pupil, bas = KL.make_kl(nmax, dim, ri=ri, nr=nr, stf='kolmogorov', mask=True)
    assert 'insufficient' not in out.getvalue(), 'case outside the sampling rule of the library'
    npp = bas['np']
    rad = np.asarray(bas['radp'], float)
    th = np.arange(npp + 1) * 2 * np.pi / npp                       # closed in azimuth
    c = (np.arange(dim) - (dim - 1) / 2.) / (dim / 2.)              # pixel centres, pupil radius = dim / 2 pixels
    X, Y = np.meshgrid(c, c)
    R2 = X ** 2 + Y ** 2
    TH = np.mod(np.arctan2(Y, X), 2 * np.pi)
    inside = (R2 >= ri ** 2) & (R2 <= 1)
    bad = []
    if not np.array_equal(pupil, inside.astype(float)):
        bad.append('returned pupil is not the annulus indicator')
    if np.abs(kl[:, ~inside]).max() != 0:
        bad.append('masked rendering is not zero outside the annulus')
    sel = inside & (R2 >= rad[0] ** 2) & (R2 <= rad[-1] ** 2)      # pixels inside the radial span of the samples
    pts = np.stack((R2[sel], TH[sel]), axis=-1)
    worst, wi = 0., -1
    for i in range(nmax):
        f = KL.gkl_sfi(bas, i)
        f = np.concatenate((f, f[:, :1]), axis=1)
        ref = RegularGridInterpolator((rad ** 2, th), f)(pts)
        e = np.abs(kl[i][sel] - ref).max() / np.abs(f).max()
        if e > worst:
            worst, wi = e, i
    if worst > TOL:
        bad.append('mode %d departs from its polar function by %.2f of its peak value (tolerance %.2f)'
                   % (wi, worst, TOL))
    print('nmax=%3d dim=%2d ri=%.2f nr=%2d (azimuthal samples %3d): worst departure %.3f  %s'
          % (nmax, dim, ri, nr, npp, worst, 'OK' if not bad else 'VIOLATION'))
    for b in bad:
        print('    ' + b)
    return not bad


ok = True
for case in [(12, 24, 0.3, 12), (30, 33, 0.5, 16), (56, 32, 0.5, 12), (20, 20, 0.9, 10),
             (40, 24, 0.9, 10), (70, 33, 0.95, 16), (90, 40, 0.93, 20)]:
    ok &= check(*case)
if not ok:
    print('C13 VIOLATED: the Cartesian rendering does not follow the polar Karhunen-Loeve functions')
    sys.exit(1)
print('C13 holds on all cases')
sys.exit(0)
