"""C13 -- Karhunen-Loeve functions on their native polar grid are orthonormal, piston-free and diagonalise the
Kolmogorov covariance; the returned variances are that diagonal (positive, non-increasing, tip/tilt first and equal).

The double pupil average  -1/2 <K_i(x) D(|x-x'|) K_j(x')>  is evaluated exactly on the native grid (all pairs of grid
points; the rotational symmetry of the grid is only used to organise the sum as circular convolutions).
Checked for several radial samplings nr, small and large.
"""
import contextlib
import io
import sys
import warnings

import numpy as np

warnings.simplefilter('ignore')
from aotools.functions import karhunenLoeve as KL


def covariance_on_grid(F, rad):
    """F: (n, nr, npp) functions on the polar grid (rad[a], 2 pi l / npp);  returns -1/2 <F_i D F_j>."""
    n, nr, npp = F.shape
    dth = np.arange(npp) * 2 * np.pi / npp
    FF = np.fft.fft(F, axis=2)
    C = np.zeros((n, n))
    for a in range(nr):
        d2 = rad[a] ** 2 + rad[:, None] ** 2 - 2 * rad[a] * rad[:, None] * np.cos(dth)[None, :]
        D = 6.8839 * (0.5 * np.sqrt(np.maximum(d2, 0))) ** (5. / 3)       # D(|x - x'|), separations in diameters
        G = np.fft.ifft(np.einsum('bk,jbk->jk', np.fft.fft(D, axis=1), FF), axis=1).real
        C += F[:, a, :] @ G.T
    return -0.5 * C / float(nr * npp) ** 2


def check(ri, nr, nmax):
    with contextlib.redirect_stdout(io.StringIO()):
        bas = KL.gkl_basis(ri, nr, int(2 * np.pi * nr), nfunc=nmax, stf='kolmogorov')
    var = np.asarray(bas['evals'], float)
    F = np.array([KL.gkl_sfi(bas, i) for i in range(nmax)])
    flat = F.reshape(nmax, -1)
    bad = []
    gram = flat @ flat.T / flat.shape[1]
    if np.abs(gram - np.eye(nmax)).max() > 1e-9:
        bad.append('not orthonormal (max deviation %.2e)' % np.abs(gram - np.eye(nmax)).max())
    if np.abs(flat.mean(axis=1)).max() > 1e-9:
        bad.append('not piston-free (max |mean| %.2e)' % np.abs(flat.mean(axis=1)).max())
    if not (np.all(var > 0) and np.all(np.diff(var) <= 0) and var[0] == var[1]):
        bad.append('variances not positive / non-increasing / tip-tilt equal')
    C = covariance_on_grid(F, np.asarray(bas['radp'], float))
    off = C - np.diag(np.diag(C))
    e_off = np.abs(off).max() / var[0]
    e_diag = np.abs(np.diag(C) - var).max() / var[0]
    if e_off > 1e-4:
        bad.append('covariance is not diagonal in the modes: largest off-diagonal term %.2e of the tip variance' % e_off)
    if e_diag > 1e-4:
        i = int(np.argmax(np.abs(np.diag(C) - var)))
        bad.append('returned variances are not the covariance diagonal: mode %d returned %.6f, actual %.6f'
                   % (i, var[i], C[i, i]))
    print('ri=%.2f nr=%3d nmax=%d: off-diagonal %.1e, diagonal-vs-variance %.1e  %s'
          % (ri, nr, nmax, e_off, e_diag, 'OK' if not bad else 'VIOLATION'))
    for b in bad:
        print('    ' + b)
    return not bad


ok = True
for ri, nr, nmax in [(0.3, 12, 16), (0.5, 33, 20), (0.2, 40, 24), (0.3, 69, 20), (0.6, 75, 14)]:
    ok &= check(ri, nr, nmax)
if not ok:
    print('C13 VIOLATED: Karhunen-Loeve modes do not diagonalise the Kolmogorov covariance with the returned variances')
    sys.exit(1)
print('C13 holds on all cases')
sys.exit(0)
