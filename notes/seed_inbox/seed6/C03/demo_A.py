"""
C03: rebuilding the slope covariance matrix on the same object, in either mode and in any order, returns the same
matrix again, and the multi-process result is bit-identical to the single-process one.

Here the guide-star positions are handed over the way the docstring describes them: as a float64 ndarray of shape
(n_wfs, 2) (the test-suite only ever uses a list of lists).
"""
import sys

import numpy

import aotools
from aotools.turbulence.slopecovariance import CovarianceMatrix


def make(threads, gs_positions):
    n_wfs = 3
    telescope_diameter = 8.
    nx_subaps = 6
    n_layers = 3
    mask = aotools.circle(nx_subaps / 2., nx_subaps)
    return CovarianceMatrix(
        n_wfs, [mask] * n_wfs, telescope_diameter, [telescope_diameter / nx_subaps] * n_wfs,
        [90000., 90000., 0.], gs_positions, [550e-9] * n_wfs,
        n_layers, numpy.linspace(0, 16000, n_layers), [0.2, 0.4, 0.6], [25., 30., 40.], threads)


def same(a, b):
    return a.shape == b.shape and a.dtype == b.dtype and numpy.array_equal(a, b)


def main():
    failures = []
    gs_list = [[20., 0.], [-10., 17.], [-10., -17.]]

    # reference: a fresh object per build, positions as a list of lists
    reference = make(1, [list(p) for p in gs_list]).make_covariance_matrix().copy()

    for form in ("list of lists", "float64 ndarray", "int64 ndarray", "Fortran-ordered float64 ndarray"):
        if form == "list of lists":
            gs = [list(p) for p in gs_list]
        elif form == "float64 ndarray":
            gs = numpy.array(gs_list, dtype="float64")
        elif form == "int64 ndarray":
            gs = numpy.array(gs_list, dtype="int64")
        else:
            gs = numpy.asfortranarray(numpy.array(gs_list, dtype="float64"))

        obj = make(1, gs)
        history = []
        for step, threads in enumerate([1, 1, 2, 1, 3, 2]):
            obj.threads = threads
            mat = obj.make_covariance_matrix()
            history.append((threads, mat.copy()))
            if not same(mat, reference):
                failures.append(
                    "gs_positions as %s: build #%d (threads=%d) differs from the single-process reference "
                    "(max |diff| = %.3e, reference max = %.3e)"
                    % (form, step + 1, threads, float(numpy.abs(mat - reference).max()), float(numpy.abs(reference).max())))
        for k in range(1, len(history)):
            if not same(history[k][1], history[0][1]):
                failures.append("gs_positions as %s: rebuild #%d (threads=%d) differs from the first build on the same object"
                                % (form, k + 1, history[k][0]))

    if failures:
        print("C03 VIOLATED:")
        for f in failures:
            print("  - " + f)
        return 1
    print("C03 holds: all rebuilds (threads 1,1,2,1,3,2) identical for every form of gs_positions")
    return 0


if __name__ == "__main__":
    sys.exit(main())
