"""
C03: the slope covariance matrix built with any number of worker processes is bit-identical to the single-process
result, and rebuilding on the same object (either mode, any order) gives the same matrix again.

Configuration: three sensors on the same 6x6 lenslet grid whose pupils are vignetted differently (central obscuration,
top/bottom edge, left/right edge) -- same number of active sub-apertures, different sub-apertures -- looking in three
different directions through a profile that has a ground layer.
"""
import sys

import numpy

from aotools.turbulence.slopecovariance import CovarianceMatrix


def masks():
    m0 = numpy.ones((6, 6))
    m0[2:4, 2:4] = 0                      # central obscuration
    m1 = numpy.ones((6, 6))
    m1[0, 2:4] = 0
    m1[5, 2:4] = 0                        # clipped at top and bottom
    m2 = numpy.ones((6, 6))
    m2[2:4, 0] = 0
    m2[2:4, 5] = 0                        # clipped left and right
    return [m0, m1, m2]


def make(threads):
    n_wfs = 3
    telescope_diameter = 4.2
    n_layers = 3
    return CovarianceMatrix(
        n_wfs, masks(), telescope_diameter, [telescope_diameter / 6] * n_wfs,
        [0, 0, 0], [[30., 0.], [-15., 26.], [-15., -26.]], [600e-9] * n_wfs,
        n_layers, [0., 4000., 11000.], [0.15, 0.5, 0.8], [20., 30., 50.], threads)


def same(a, b):
    return a.shape == b.shape and a.dtype == b.dtype and numpy.array_equal(a, b)


def main():
    failures = []

    obj = make(3)
    sequence = [3, 1, 3, 2, 1, 4]
    built = []
    for threads in sequence:
        obj.threads = threads
        built.append(obj.make_covariance_matrix().copy())

    first = built[0]
    for k in range(1, len(sequence)):
        if not same(built[k], first):
            d = numpy.abs(built[k].astype("float64") - first)
            failures.append(
                "build #%d (threads=%d) differs from build #1 (threads=%d) on the same object: %d of %d entries, "
                "max |diff| = %.3e (matrix max %.3e)"
                % (k + 1, sequence[k], sequence[0], int((d != 0).sum()), d.size, float(d.max()), float(numpy.abs(first).max())))

    # a second object, single-process first, then multi-process
    obj2 = make(1)
    sp = obj2.make_covariance_matrix().copy()
    for threads in (2, 5):
        obj2.threads = threads
        mp = obj2.make_covariance_matrix()
        if not same(mp, sp):
            failures.append("second object: threads=%d differs from its single-process build" % threads)
    if not same(sp, first):
        failures.append("a fresh object built single-process differs from the first object's %d-process build" % sequence[0])

    if failures:
        print("C03 VIOLATED:")
        for f in failures:
            print("  - " + f)
        return 1
    print("C03 holds: builds with threads %s on one object, and 1/2/5 on another, are all bit-identical" % sequence)
    return 0


if __name__ == "__main__":
    sys.exit(main())
