"""
C08 demo B: the von Karman structure function is a function of the separation VALUE: whole-number separations
written as Python ints, lists of ints or integer arrays (pixel counts, whole metres) are in the domain "all r >= 0,
scalars and arrays" and must give the same closed-form statistics as the same numbers written as floats:
D(r) = 2 (C(0) - C(r)), D scales as r0^(-5/3), D(0) = 0.

exit 0: property holds; exit 1: property violated (details printed)
"""
import sys

import numpy

from aotools.functions import karhunenLoeve as kl
from aotools.turbulence import slopecovariance as sc
from aotools.turbulence import turb

problems = []


def report(msg):
    problems.append(msg)
    print("VIOLATION:", msg)


L0 = 25.0
values = [0, 1, 2, 3, 5, 8, 40, 1000]
forms = {
    "float64 array": numpy.array(values, dtype=float),
    "list of ints": list(values),
    "tuple of ints": tuple(values),
    "int64 array": numpy.array(values, dtype=numpy.int64),
    "int32 array": numpy.array(values, dtype=numpy.int32),
    "uint16 array": numpy.array(values, dtype=numpy.uint16),
    "2-d int array": numpy.array(values, dtype=int).reshape(2, 4),
}

for r0 in (0.5, 2.0, 6.0):
    c0 = float(turb.phase_covariance(0.0, r0, L0))
    ref = 2 * (c0 - numpy.asarray(turb.phase_covariance(numpy.array(values, dtype=float), r0, L0)))
    for name, r in forms.items():
        d = numpy.asarray(sc.structure_function_vk(r, r0, L0), dtype=float).ravel()

        # D(r) = 2 (C(0) - C(r))   (5-digit constants in the closed forms: 2e-3 relative)
        err = numpy.abs(d - ref)
        bad = err > 2e-3 * numpy.abs(ref) + 1e-12 * c0
        if bad.any():
            i = int(numpy.argmax(err * bad))
            report("r0=%g, %s: D(%d) = %.6g but 2 (C(0) - C(r)) = %.6g" % (r0, name, values[i], d[i], ref[i]))
        if d[0] != 0:
            report("r0=%g, %s: D(0) = %r" % (r0, name, d[0]))

        # the copy used by the KL code (r0 = 1: separations and outer scale in units of r0) agrees
        d_kl = numpy.asarray(kl.stf_vonKarman(numpy.asarray(r, dtype=float) / r0, L0 / r0), dtype=float).ravel()
        if not numpy.allclose(d, d_kl, rtol=1e-6, atol=1e-12):
            i = int(numpy.argmax(numpy.abs(d - d_kl)))
            report("r0=%g, %s: slope-covariance copy gives D(%d) = %.6g, KL copy %.6g"
                   % (r0, name, values[i], d[i], d_kl[i]))

    # scalars: a Python int, a NumPy integer and a 0-d integer array against the float
    for r in (1, 3, 40):
        want = float(sc.structure_function_vk(float(r), r0, L0))
        for name, rr in (("int", r), ("numpy.int64", numpy.int64(r)), ("0-d int array", numpy.array(r))):
            got = float(sc.structure_function_vk(rr, r0, L0))
            if abs(got - want) > 1e-9 * abs(want):
                report("r0=%g: D(%s %d) = %.6g but D(float %d) = %.6g" % (r0, name, r, got, r, want))

# D scales as r0^(-5/3), whole-number separations
r = numpy.arange(0, 6)
d1 = numpy.asarray(sc.structure_function_vk(r, 1.0, L0), dtype=float)
d2 =numpy.asarray(sc.structure_function_vk(r, 2.0, L0), dtype=float)
if not numpy.allclose(d1, d2 * 2 ** (5. / 3), rtol=1e-9, atol=0):
    report("D(r; r0=1) = %s is not 2^(5/3) D(r; r0=2) = %s" % (d1, d2 * 2 ** (5. / 3)))

if problems:
    print("%d violation(s) of C08" % len(problems))
    sys.exit(1)
print("C08 holds on the inputs tried")
sys.exit(0)
