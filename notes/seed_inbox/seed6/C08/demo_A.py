"""
C08 demo A: the von Karman structure function used by the Karhunen-Loeve code must describe the same model as
the one used by the slope-covariance code, be zero at zero separation, non-negative / non-decreasing, agree with
2 * (C(0) - C(r)) of aotools.phase_covariance and tend to the Kolmogorov law 6.88 (r/r0)^(5/3) as L0 grows --
in particular for separations that are small compared with the outer scale (r / L0 << 1).

exit 0: property holds; exit 1: property violated (details printed)
"""
import sys

import numpy

from aotools.functions import karhunenLoeve as kl
from aotools.turbulence import slopecovariance as sc
from aotools.turbulence import turb

problems = []


def report(msg):
    problems.append(msg)
    print("VIOLATION:", msg)


# (r0 = 1 in the KL copy: separations are in units of r0, the outer scale in the same unit)
for L0 in (3.0, 20.0, 1.0e3, 1.0e5):
    ratios = numpy.logspace(-6, 2, 81)          # r / L0 from 1e-6 (r << L0) to 100 (r >> L0)
    r = numpy.concatenate(([0.0], ratios * L0))

    d_kl = numpy.asarray(kl.stf_vonKarman(r, L0), dtype=float)
    d_sc = numpy.asarray(sc.structure_function_vk(r, 1.0, L0), dtype=float)

    # 1. the two copies agree with each other
    rel = numpy.abs(d_kl[1:] - d_sc[1:]) / d_sc[1:]
    worst = int(numpy.argmax(rel))
    if rel[worst] > 1e-4:
        report("L0=%g: KL copy and slope-covariance copy differ by %.3g (relative) at r/L0=%.3g: %.6g vs %.6g"
               % (L0, rel[worst], ratios[worst], d_kl[1 + worst], d_sc[1 + worst]))

    # 2. zero at zero separation, never negative, non-decreasing
    if d_kl[0] != 0:
        report("L0=%g: D(0) = %r, not 0" % (L0, d_kl[0]))
    if d_kl.min() < 0:
        i = int(numpy.argmin(d_kl))
        report("L0=%g: structure function is negative: D(r=%.3g) = %.6g" % (L0, r[i], d_kl[i]))
    steps = numpy.diff(d_kl)
    if (steps < -1e-9 * d_kl.max()).any():
        i = int(numpy.argmin(steps))
        report("L0=%g: structure function decreases between r=%.3g and r=%.3g (%.6g -> %.6g)"
               % (L0, r[i], r[i + 1], d_kl[i], d_kl[i + 1]))

    # 3. equals twice the difference of the phase covariance at zero and at r  (the closed forms carry
    #    5-digit constants: 1e-3 relative, plus the rounding of the difference of two O((L0/r0)^(5/3)) numbers)
    c0 = float(turb.phase_covariance(0.0, 1.0, L0))
    d_cov = 2 * (c0 - numpy.asarray(turb.phase_covariance(r, 1.0, L0), dtype=float))
    tol = 2e-3 * numpy.abs(d_cov) + 1e-13 * c0
    bad = numpy.abs(d_kl - d_cov) > tol
    if bad.any():
        i = int(numpy.argmax(numpy.abs(d_kl - d_cov) / (numpy.abs(d_cov) + 1e-300) * bad))
        report("L0=%g: D(r) = %.6g but 2 (C(0) - C(r)) = %.6g at r=%.3g (r/L0=%.3g)"
               % (L0, d_kl[i], d_cov[i], r[i], r[i] / L0))

    # 4. saturation at twice the variance
    sat = 2 * 0.0863 * L0 ** (5. / 3)
    if abs(d_kl[-1] - sat) > 2e-3 * sat:
        report("L0=%g: D(100 L0) = %.6g, expected saturation %.6g" % (L0, d_kl[-1], sat))

# 5. Kolmogorov limit for a large outer scale: separations of 0.1 ... 10 (in r0) and L0 = 1e7
#    (the first correction to the Kolmogorov law is 1.485 (r/L0)^(1/3): below 2 per cent here)
r = numpy.array([0.1, 0.3, 1.0, 3.0, 10.0])
d = numpy.asarray(kl.stf_vonKarman(r, 1.0e7), dtype=float)
kolm = 6.88 * r ** (5. / 3)
rel = numpy.abs(d / kolm - 1)
if (rel > 0.03).any():
    i = int(numpy.argmax(rel))
    report("Kolmogorov limit (L0=1e7): D(%.3g) = %.6g, 6.88 r^(5/3) = %.6g" % (r[i], d[i], kolm[i]))

if problems:
    print("%d violation(s) of C08" % len(problems))
    sys.exit(1)
print("C08 holds on the inputs tried")
sys.exit(0)
