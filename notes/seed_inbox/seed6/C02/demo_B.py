"""
C02, duplicate-sensor clause, end to end through the covariance builder.

A CovarianceMatrix object is first used with the "on-axis" pseudo sensor pointing at the science
target (field centre).  The SAME object is then re-pointed (gs_positions updated) so that the on-axis
sensor looks in exactly the direction of off-axis sensor 1 (same mask, wavelength, altitude) and the
covariance matrix / reconstructor are rebuilt.  The reconstructor for the geometry the object now
describes must reproduce sensor 1's slopes and give zero weight to the other sensors, and it must be the
same reconstructor a freshly created object with that geometry produces.
"""
import sys
import numpy
import aotools
from aotools.turbulence import slopecovariance as sc


def build(obj):
    obj.make_covariance_matrix()
    return numpy.array(obj.make_tomographic_reconstructor(), dtype=float)


def params(gs_positions):
    n_wfs = 3
    nx = 4
    tel = 4.0
    mask = aotools.circle(nx / 2., nx)
    return dict(
        n_wfs=n_wfs, pupil_masks=[mask] * n_wfs, telescope_diameter=tel,
        subap_diameters=[tel / nx] * n_wfs, gs_altitudes=[0] * n_wfs,
        gs_positions=gs_positions, wfs_wavelengths=[500e-9] * n_wfs,
        n_layers=2, layer_altitudes=numpy.array([0., 8000.]), layer_r0s=[0.2, 0.4], layer_L0s=[25., 25.],
        threads=1)


science = [[0., 0.], [20., 0.], [-10., 17.]]       # on-axis sensor at the field centre
duplicate = [[20., 0.], [20., 0.], [-10., 17.]]    # on-axis sensor duplicates off-axis sensor 1

obj = sc.CovarianceMatrix(**params([list(p) for p in science]))
build(obj)                                          # first use: science direction

obj.gs_positions = [list(p) for p in duplicate]     # re-point, rebuild
R = build(obj)

fresh = sc.CovarianceMatrix(**params([list(p) for p in duplicate]))
R_fresh = build(fresh)

n2 = 2 * int(obj.n_subaps[0])
expected = numpy.hstack([numpy.eye(n2), numpy.zeros((n2, R.shape[1] - n2))])

bad = []
err_dup = abs(R - expected).max()
if not err_dup < 5e-3:
    bad.append("re-pointed object: R does not reproduce the duplicated sensor: max|R - [I 0]| = %.3g "
               "(weight on own sensor block %.3g, largest weight on the other sensor %.3g)"
               % (err_dup, abs(R[:, :n2] - numpy.eye(n2)).max(), abs(R[:, n2:]).max()))
err_fresh = abs(R_fresh - expected).max()
if not err_fresh < 5e-3:
    bad.append("fresh object: max|R - [I 0]| = %.3g" % err_fresh)
if not abs(R - R_fresh).max() < 5e-3:
    bad.append("same geometry, different reconstructors: re-used object vs fresh object differ by %.3g"
               % abs(R - R_fresh).max())

# normal equations on the rebuilt matrix (must hold in either case; reported for completeness)
C = numpy.array(obj.covariance_matrix, dtype=float)
res = abs(R.dot(C[n2:, n2:]) - C[:n2, n2:]).max() / abs(C).max()
if not res < 1e-3:
    bad.append("normal equations violated on the rebuilt matrix: %.3g" % res)

if bad:
    print("C02 VIOLATED")
    for b in bad:
        print("  " + b)
    sys.exit(1)
print("C02 ok: re-pointed object gives R = [I 0] (err %.2g), equal to a fresh object's" % err_dup)
sys.exit(0)
