"""
C02, zero-conditioning clause, through CovarianceMatrix.make_tomographic_reconstructor.

The covariance matrix of a small 3-sensor system (on-axis sensor duplicating off-axis sensor 1) is built
once.  A heavily conditioned reconstructor is made first (svd_conditioning=0.2, a legitimate request),
then an UNconditioned one is asked for explicitly (svd_conditioning=0, positionally and by keyword).
With zero conditioning and a well-conditioned C_off,off the returned R must satisfy
R C_off,off = C_on,off to rounding, must reproduce the duplicated sensor ([I 0]) and must not have a larger
expected residual than the reconstructor obtained from a direct solve.
"""
import sys
import numpy
import aotools
from aotools.turbulence import slopecovariance as sc

n_wfs = 3
nx = 4
tel = 4.0
mask = aotools.circle(nx / 2., nx)
obj = sc.CovarianceMatrix(
    n_wfs, [mask] * n_wfs, tel, [tel / nx] * n_wfs, [0] * n_wfs,
    [[20., 0.], [20., 0.], [-10., 17.]], [500e-9] * n_wfs,
    2, numpy.array([0., 8000.]), [0.2, 0.4], [25., 25.], 1)
C = numpy.array(obj.make_covariance_matrix(), dtype=float)
n2 = 2 * int(obj.n_subaps[0])
C_on, C_onoff, C_off = C[:n2, :n2], C[:n2, n2:], C[n2:, n2:]
cond = numpy.linalg.cond(C_off)
assert cond < 1e4, cond      # well conditioned: nothing to filter


def residual(R):
    # E|s_on - R s_off|^2
    return numpy.trace(C_on - R.dot(C_onoff.T) - C_onoff.dot(R.T) + R.dot(C_off).dot(R.T))


R_best = numpy.linalg.solve(C_off, C_onoff.T).T
expected = numpy.hstack([numpy.eye(n2), numpy.zeros((n2, C_off.shape[0] - n2))])
scale = abs(C).max()

bad = []


def check(label, R):
    R = numpy.array(R, dtype=float)
    ne = abs(R.dot(C_off) - C_onoff).max() / scale
    if not ne < 1e-4:
        bad.append("%s: normal equations R C_off,off = C_on,off violated, relative error %.3g" % (label, ne))
    dup = abs(R - expected).max()
    if not dup < 5e-3:
        bad.append("%s: duplicated sensor not reproduced, max|R - [I 0]| = %.3g" % (label, dup))
    excess = (residual(R) - residual(R_best)) / numpy.trace(C_on)
    if not excess < 1e-4:
        bad.append("%s: not minimum variance, excess residual / signal variance = %.3g" % (label, excess))


check("zero conditioning, fresh object", obj.make_tomographic_reconstructor(0))

R_cond = numpy.array(obj.make_tomographic_reconstructor(0.2), dtype=float)     # filtered reconstructor
s = numpy.linalg.svd(C_off, compute_uv=False)
assert (s < 0.2 * s[0]).any()                                                  # 0.2 really filters modes

check("zero conditioning (positional) after a conditioned reconstructor", obj.make_tomographic_reconstructor(0))
check("zero conditioning (keyword) after a conditioned reconstructor",
      obj.make_tomographic_reconstructor(svd_conditioning=0.0))

if bad:
    print("C02 VIOLATED (cond(C_off,off) = %.3g)" % cond)
    for b in bad:
        print("  " + b)
    sys.exit(1)
print("C02 ok: zero-conditioning reconstructor satisfies the normal equations before and after a conditioned one")
sys.exit(0)
