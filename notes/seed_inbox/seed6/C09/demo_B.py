"""C09: the scaled 2-D transforms are inverse pairs obeying Parseval for ANY leading batch dimensions.

The guarantee is about the VALUES in the array handed in, not about how they happen to be laid out in
memory: a stack of fields that is Fortran-ordered (as read from a .mat / IDL file), or whose batch axes
were swapped with swapaxes/transpose, holds the same fields and must transform to the same spectra.
For every stack x (shape batch + (N, N)), spacing delta and delta_f = 1/(N*delta):
    ift2(ft2(x, delta), delta_f) == x,     sum|x|^2 delta^2 == sum|X|^2 delta_f^2  (field by field),
    ft2(x)[i, j] == ft2(x[i, j])           (a stack is transformed field by field).
"""
import sys
import numpy
import aotools
from aotools import fouriertransform

rng = numpy.random.RandomState(909)
failures = []
keep = []          # keep every array alive for the whole run


def check(label, got, want, tol=1e-10):
    got = numpy.asarray(got)
    if got.shape != want.shape:
        failures.append("%s: shape %s, expected %s" % (label, got.shape, want.shape))
        return
    scale = max(float(numpy.max(numpy.abs(want))), 1e-300)
    with numpy.errstate(all="ignore"):
        err = float(numpy.max(numpy.abs(got - want))) / scale
    if not err <= tol:
        failures.append("%s: relative error %.3g" % (label, err))


def layouts(batch, N, complex_valued):
    """the same kind of stack in the memory layouts callers really produce"""
    shape = batch + (N, N)
    base = rng.randn(*shape)
    if complex_valued:
        base = base + 1j * rng.randn(*shape)
    yield "C-contiguous", base
    yield "Fortran-ordered", numpy.asfortranarray(base)
    if len(batch) >= 2:
        swapped = numpy.ascontiguousarray(base.swapaxes(0, 1))
        yield "batch axes swapped (swapaxes view)", swapped.swapaxes(0, 1)
    yield "frames-last cube moved to front (moveaxis view)", numpy.moveaxis(
        numpy.ascontiguousarray(numpy.moveaxis(base, (-2, -1), (0, 1))), (0, 1), (-2, -1))
    yield "every other frame of a longer stack", numpy.repeat(base, 2, axis=0)[::2]


for ft2, ift2, where in ((aotools.ft2, aotools.ift2, "aotools"),
                         (fouriertransform.ft2, fouriertransform.ift2, "aotools.fouriertransform")):
    for batch, N in (((), 8), ((3,), 8), ((4,), 7), ((2, 3), 8), ((3, 2), 9), ((2, 2, 2), 6)):
        for complex_valued in (False, True):
            for delta in (0.37, 2.0):
                if not batch:
                    x = rng.randn(N, N)
                    X = ft2(x, delta)
                    check("%s single field N=%d" % (where, N), ift2(X, 1.0 / (N * delta)), x)
                    continue
                for name, x in layouts(batch, N, complex_valued):
                    delta_f = 1.0 / (N * delta)
                    tag = "%s batch=%s N=%d %s %s delta=%g" % (
                        where, batch, N, "complex" if complex_valued else "real", name, delta)
                    X = ft2(x, delta)
                    back = ift2(X, delta_f)
                    keep.extend((x, X, back))
                    check(tag + ": ift2(ft2(x)) == x", back, x)
                    e_x = numpy.sum(numpy.abs(x) ** 2, axis=(-1, -2)) * delta ** 2
                    e_X = numpy.sum(numpy.abs(numpy.asarray(X)) ** 2, axis=(-1, -2)) * delta_f ** 2
                    check(tag + ": Parseval", e_X, e_x)
                    alone = numpy.empty(x.shape, dtype=complex)
                    for idx in numpy.ndindex(*batch):
                        alone[idx] = ft2(numpy.array(x[idx]), delta)
                    keep.append(alone)
                    check(tag + ": stack == fields one by one", X, alone)
                    # and the other way round: ft2(ift2(X)) == X for a spectrum stack in this layout
                    G = ift2(x, delta_f)
                    keep.append(G)
                    check(tag + ": ft2(ift2(x)) == x", ft2(G, delta), x)

if failures:
    print("C09 violated: ft2/ift2 are not an inverse pair / break Parseval on some stacks of fields")
    for f in failures[:14]:
        print("  " + f)
    if len(failures) > 14:
        print("  ... and %d more" % (len(failures) - 14))
    sys.exit(1)
print("ok: ft2/ift2 are inverse pairs obeying Parseval for every batch shape and memory layout tried")
sys.exit(0)
