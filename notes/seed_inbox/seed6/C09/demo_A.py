"""C09: the scaled 1-D transforms are inverse pairs for ANY leading batch dimensions.

ift(ft(x, delta), 1/(N*delta)) == x and irft(rft(x, delta), 1/(N*delta)) == x must hold for a single
signal and for a stack of signals alike, whatever the number of signals in the stack (N is the signal
length, i.e. the last axis).  Each row of a stack must come back exactly as the same row transformed alone.
"""
import sys
import numpy
import aotools
from aotools import fouriertransform

rng = numpy.random.RandomState(9)
failures = []


def check(label, got, want, tol=1e-10):
    got = numpy.asarray(got)
    if got.shape != want.shape:
        failures.append("%s: shape %s, expected %s" % (label, got.shape, want.shape))
        return
    err = numpy.max(numpy.abs(got - want)) / max(numpy.max(numpy.abs(want)), 1e-300)
    if not err <= tol:
        failures.append("%s: relative error %.3g" % (label, err))


for ft, ift, where in ((aotools.ft, aotools.ift, "aotools"),
                       (fouriertransform.ft, fouriertransform.ift, "aotools.fouriertransform")):
    for batch, N in (((), 16), ((), 15), ((16,), 16), ((3,), 16), ((5,), 9), ((2, 4), 12), ((1,), 8), ((40,), 7)):
        for delta in (1.0, 0.05, 3.0):
            x = rng.randn(*(batch + (N,))) + 1j * rng.randn(*(batch + (N,)))
            delta_f = 1.0 / (N * delta)
            X = ft(x, delta)
            back = ift(X, delta_f)
            tag = "%s ft/ift batch=%s N=%d delta=%g" % (where, batch, N, delta)
            check(tag + " inverse pair", back, x)
            # Parseval, signal by signal
            e_x = numpy.sum(numpy.abs(x) ** 2, axis=-1) * delta
            e_X = numpy.sum(numpy.abs(X) ** 2, axis=-1) * delta_f
            check(tag + " Parseval", e_X, e_x)
            # the opposite order as well: ft(ift(X)) == X
            check(tag + " ft(ift(.))", ft(ift(x, delta_f), delta), x)
            # a stack is transformed signal by signal
            if batch:
                flat_in = X.reshape(-1, N)
                alone = numpy.array([ift(row, delta_f) for row in flat_in]).reshape(x.shape)
                check(tag + " stack == signals one by one", back, alone)

for rft, irft, where in ((aotools.rft, aotools.irft, "aotools"),
                         (fouriertransform.rft, fouriertransform.irft, "aotools.fouriertransform")):
    for batch, N in (((), 16), ((9,), 16), ((3,), 16), ((2, 4), 12), ((30,), 8)):
        for delta in (1.0, 0.05):
            x = rng.randn(*(batch + (N,)))
            delta_f = 1.0 / (N * delta)
            back = irft(rft(x, delta), delta_f)
            check("%s rft/irft batch=%s N=%d delta=%g inverse pair" % (where, batch, N, delta), back, x)

if failures:
    print("C09 violated: the 1-D inverse transforms are not the inverses of the forward ones on stacks")
    for f in failures[:12]:
        print("  " + f)
    if len(failures) > 12:
        print("  ... and %d more" % (len(failures) - 12))
    sys.exit(1)
print("ok: ft/ift and rft/irft are inverse pairs (and obey Parseval) for every batch shape tried")
sys.exit(0)
