"""
C06: seeded screens are reproducible and isolated from other screens made in between.

A seeded finite screen is made, then other screens of the same size are made (other seed, unseeded,
sub-harmonic), and the first screen -- still held by the caller -- must be the one its seed gives.
A seeded infinite screen is built, a second infinite screen of the same size is built before the
first row is added, and the rows must equal those of an undisturbed reproduction.
"""
import sys
import numpy
from aotools.turbulence import phasescreen, infinitephasescreen

failures = []
PAR = (0.15, 256, 0.02, 30.0, 0.01)      # a big screen (256 x 256)


def digest(a):
    return numpy.ascontiguousarray(a).tobytes()


# --- finite screens -------------------------------------------------------------------------
reference = digest(phasescreen.ft_phase_screen(*PAR, seed=11))

first = phasescreen.ft_phase_screen(*PAR, seed=11)
if digest(first) != reference:
    failures.append("ft_phase_screen: same seed, different screen (back-to-back calls)")

other = phasescreen.ft_phase_screen(*PAR, seed=12)          # another screen, same size
if digest(first) != reference:
    failures.append("ft_phase_screen(seed=11) held by the caller changed when a screen with seed=12 was made")
if numpy.array_equal(first, other):
    failures.append("ft_phase_screen: seeds 11 and 12 give the same screen")

first = phasescreen.ft_phase_screen(*PAR, seed=11)
phasescreen.ft_phase_screen(*PAR)                           # unseeded call in between
if digest(first) != reference:
    failures.append("ft_phase_screen(seed=11) held by the caller changed when an unseeded screen was made")

first = phasescreen.ft_phase_screen(*PAR, seed=11)
sh_ref = digest(phasescreen.ft_sh_phase_screen(*PAR, seed=3))   # sub-harmonic call in between
if digest(first) != reference:
    failures.append("ft_phase_screen(seed=11) held by the caller changed when a sub-harmonic screen was made")
if digest(phasescreen.ft_sh_phase_screen(*PAR, seed=3)) != sh_ref:
    failures.append("ft_sh_phase_screen: same seed, different screen")

u1 = phasescreen.ft_phase_screen(*PAR)
u2 = phasescreen.ft_phase_screen(*PAR)
if numpy.array_equal(u1, u2):
    failures.append("two unseeded ft_phase_screen calls give the same screen")

# --- infinite screens -----------------------------------------------------------------------
for cls, nx, kw in ((infinitephasescreen.PhaseScreenVonKarman, 256, {}),
                    (infinitephasescreen.PhaseScreenKolmogorov, 65, {"stencil_length_factor": 4})):
    undisturbed = cls(nx, 0.1, 0.2, 25.0, random_seed=5, **kw)
    ref_frames = [digest(undisturbed.scrn)] + [digest(undisturbed.add_row()) for _ in range(4)]

    scr = cls(nx, 0.1, 0.2, 25.0, random_seed=5, **kw)
    bystander = cls(nx, 0.1, 0.2, 25.0, random_seed=6, **kw)     # same size, made before scr's first row
    frames = [digest(scr.scrn)] + [digest(scr.add_row()) for _ in range(4)]
    bad = [i for i, (x, y) in enumerate(zip(frames, ref_frames)) if x != y]
    if bad:
        failures.append("%s(seed=5): frames %s differ from an undisturbed reproduction after a second "
                        "instance (seed=6) was created in between" % (cls.__name__, bad))
    if digest(bystander.scrn) == frames[0]:
        failures.append("%s: seeds 5 and 6 show the same initial screen" % cls.__name__)

if failures:
    print("C06 VIOLATED:")
    for f in failures:
        print("  -", f)
    sys.exit(1)
print("C06 holds on the exercised histories")
sys.exit(0)
