"""
C06: unseeded screens differ from each other; seeded screens are reproducible.

Screens are made by worker processes, one screen per worker, the way a simulation farms out the
layers of an atmosphere (multiprocessing with the "fork" start method, the default on Linux).
Every worker makes one unseeded screen: no two of them may be equal.  Seeded screens made in the
workers must equal the ones made in the parent, and unseeded calls in one process must differ too.
"""
import sys
import hashlib
import multiprocessing
import numpy
from aotools.turbulence import phasescreen

PAR = (0.15, 64, 0.05, 30.0, 0.01)


def digest(a):
    return hashlib.sha256(numpy.ascontiguousarray(a).tobytes()).hexdigest()


def worker(conn, kind, seed):
    make = phasescreen.ft_phase_screen if kind == "plain" else phasescreen.ft_sh_phase_screen
    conn.send(digest(make(*PAR, seed=seed)))
    conn.close()


def in_workers(kind, seeds):
    """one forked worker per screen; returns the digests of the screens they made"""
    ctx = multiprocessing.get_context("fork")
    jobs = []
    for seed in seeds:
        parent_end, child_end = ctx.Pipe(duplex=False)
        proc = ctx.Process(target=worker, args=(child_end, kind, seed))
        proc.start()
        child_end.close()
        jobs.append((proc, parent_end))
    out = []
    for proc, parent_end in jobs:
        out.append(parent_end.recv())
        proc.join()
    return out


def main():
    failures = []
    for kind, make in (("plain", phasescreen.ft_phase_screen), ("sub-harmonic", phasescreen.ft_sh_phase_screen)):
        # in one process
        a, b = make(*PAR), make(*PAR)
        if numpy.array_equal(a, b):
            failures.append("%s: two unseeded calls in one process give the same screen" % kind)
        if digest(make(*PAR, seed=4)) != digest(make(*PAR, seed=4)):
            failures.append("%s: same seed, different screen" % kind)

        # unseeded, one screen per worker
        got = in_workers(kind, [None] * 4)
        if len(set(got)) != len(got):
            failures.append("%s: %d unseeded screens made by %d workers, only %d distinct: %s"
                            % (kind, len(got), len(got), len(set(got)), [g[:8] for g in got]))

        # seeded, in workers and in the parent
        seeds = [4, 5]
        got = in_workers(kind, seeds)
        here = [digest(make(*PAR, seed=s)) for s in seeds]
        if got != here:
            failures.append("%s: seeded screens made in workers differ from the parent's" % kind)
        if len(set(got)) != len(got):
            failures.append("%s: different seeds give the same screen" % kind)

    if failures:
        print("C06 VIOLATED:")
        for f in failures:
            print("  -", f)
        return 1
    print("C06 holds on the exercised histories")
    return 0


if __name__ == "__main__":
    sys.exit(main())
