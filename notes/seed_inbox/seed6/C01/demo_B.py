"""
C01 demo B: every entry of the slope covariance matrix must equal the covariance of the two corresponding
finite-difference slope measurements, for sensors of ANY sub-aperture size and NGS/LGS mix, ordered per sensor as
x-slopes then y-slopes.  Sensors whose sub-apertures project to different sizes on a layer (different sub-aperture
diameters, or NGS next to LGS on a high layer) are compared, block by block, with an independent first-principles
computation, and the matrix built with the sensors listed in the opposite order must be the same matrix permuted.
"""
import sys

import numpy
import scipy.special

from aotools.turbulence import slopecovariance as sc


def d_vk(r, r0, L0):
    r = numpy.asarray(r, dtype=float)
    rr = numpy.where(r == 0, 1.0, r)
    x = 2 * numpy.pi * rr / L0
    val = 0.17253 * (L0 / r0) ** (5. / 3.) * (
        1 - 2 ** (1. / 6.) / scipy.special.gamma(5. / 6.) * x ** (5. / 6.) * scipy.special.kv(5. / 6., x))
    return numpy.where(r == 0, 0.0, val)


def reference(masks, tel_diam, subap_diams, gs_alts, gs_pos, wvls, alts, r0s, L0s):
    """covariance of finite-difference slopes, float64, ordered per sensor as x-slopes then y-slopes"""
    n_wfs = len(masks)
    pup = []
    for w in range(n_wfs):
        idx = numpy.argwhere(numpy.asarray(masks[w]) == 1).astype(float)
        pup.append(idx * subap_diams[w] - tel_diam / 2. - subap_diams[w] / 2.)
    n = [len(p) for p in pup]
    off = numpy.concatenate([[0], 2 * numpy.cumsum(n)])
    out = numpy.zeros((off[-1], off[-1]))
    for h, r0, L0 in zip(alts, r0s, L0s):
        ends = []   # per wfs, per axis: (plus edge, minus edge, scale)
        for w in range(n_wfs):
            s = (1 - h / gs_alts[w]) if gs_alts[w] != 0 else 1.
            centre = s * pup[w] + numpy.asarray(gs_pos[w], dtype=float) * numpy.pi / 180 / 3600 * h
            d = subap_diams[w] * s
            per_axis = []
            for ax in range(2):
                e = numpy.zeros(2)
                e[ax] = d / 2.
                per_axis.append((centre + e, centre - e, wvls[w] / (2 * numpy.pi * d)))
            ends.append(per_axis)
        for wi in range(n_wfs):
            for wj in range(n_wfs):
                for ai in range(2):
                    for aj in range(2):
                        ap, am, ki = ends[wi][ai]
                        bp, bm, kj = ends[wj][aj]

                        def D(p, q):
                            diff = p[:, None, :] - q[None, :, :]
                            return d_vk(numpy.sqrt((diff ** 2).sum(-1)), r0, L0)
                        cov = 0.5 * (-D(ap, bp) + D(ap, bm) + D(am, bp) - D(am, bm)) * ki * kj
                        r = off[wi] + ai * n[wi]
                        c = off[wj] + aj * n[wj]
                        out[r:r + n[wi], c:c + n[wj]] += cov
    return out


def worst(a, b):
    scale = numpy.abs(numpy.diag(b)).max()
    return numpy.abs(a - b).max() / scale


def main():
    mask_a = numpy.array([[0, 1, 1, 0],
                          [1, 1, 1, 1],
                          [1, 1, 0, 1],
                          [0, 1, 1, 0]])
    mask_b = numpy.array([[1, 1, 0],
                          [1, 1, 1],
                          [0, 1, 1]])
    tel = 4.0
    wvls = [600e-9, 589e-9]
    gs_pos = numpy.array([[12., -5.], [-20., 9.]])
    alts = numpy.array([0., 6000., 14000.])
    r0s = [0.25, 0.5, 0.8]
    L0s = [25., 30., 40.]

    cases = [
        ("equal sub-apertures, two NGS", [mask_a, mask_a], [1.0, 1.0], [0, 0]),
        ("equal sub-apertures, NGS + LGS(20 km)", [mask_a, mask_a], [1.0, 1.0], [0, 20000.]),
        ("4x4 (1 m) sensor + 3x3 (4/3 m) sensor, two NGS", [mask_a, mask_b], [1.0, 4. / 3.], [0, 0]),
    ]
    names = {(0, 0): "x-x", (0, 1): "x-y", (1, 0): "y-x", (1, 1): "y-y"}
    failures = []
    for title, masks, diams, gs_alts in cases:
        n = [int(m.sum()) for m in masks]
        for threads in (1, 2):
            got = numpy.array(sc.CovarianceMatrix(
                2, masks, tel, diams, gs_alts, gs_pos, wvls, len(alts), alts, r0s, L0s,
                threads).make_covariance_matrix(), dtype=float)
            ref = reference(masks, tel, diams, gs_alts, gs_pos, wvls, alts, r0s, L0s)
            scale = numpy.abs(numpy.diag(ref)).max()

            if not numpy.array_equal(got, got.T):
                failures.append("%s (threads=%d): matrix is not symmetric" % (title, threads))
            # block by block: rows sensor 2, columns sensor 1
            for (ai, aj), nm in names.items():
                r = 2 * n[0] + ai * n[1]
                c = aj * n[0]
                err = numpy.abs(got[r:r + n[1], c:c + n[0]] - ref[r:r + n[1], c:c + n[0]]).max() / scale
                print("%-50s threads=%d  %s block (sensor 2 rows, sensor 1 cols): err %.2e" % (title, threads, nm, err))
                if err > 2e-5:
                    failures.append(
                        "%s (threads=%d): %s block between the sensors differs from the covariance of the "
                        "finite-difference slopes by %.3e of the largest variance" % (title, threads, nm, err))
            err = numpy.abs(got - ref).max() / scale
            if err > 2e-5:
                failures.append("%s (threads=%d): whole matrix off by %.3e" % (title, threads, err))

            # the covariance of two measurements does not depend on the order in which the sensors are listed
            rev = numpy.array(sc.CovarianceMatrix(
                2, masks[::-1], tel, diams[::-1], gs_alts[::-1], gs_pos[::-1], wvls[::-1], len(alts), alts, r0s, L0s,
                threads).make_covariance_matrix(), dtype=float)
            perm = numpy.concatenate([numpy.arange(2 * n[1]) + 2 * n[0], numpy.arange(2 * n[0])])
            # rev is ordered (sensor 2, sensor 1); bring got into that order
            err = numpy.abs(got[numpy.ix_(perm, perm)] - rev).max() / scale
            print("%-50s threads=%d  sensors listed in opposite order: err %.2e" % (title, threads, err))
            if err > 1e-6:
                failures.append(
                    "%s (threads=%d): listing the two sensors in the opposite order changes the covariances "
                    "of the same slope pairs by %.3e of the largest variance" % (title, threads, err))

    if failures:
        print("C01 VIOLATED:")
        for f in failures:
            print("  - " + f)
        return 1
    print("C01 holds for all sensor mixes")
    return 0


if __name__ == "__main__":
    sys.exit(main())
