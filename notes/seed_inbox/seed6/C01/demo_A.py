"""
C01 demo A: the slope covariance matrix must equal the true covariance of the WFS slopes for the geometry the
builder object describes *at the time of the build*.  A CovarianceMatrix object is routinely reused while sweeping
turbulence profiles (set new layer altitudes / strengths, build again).  Every build is compared with an
independent first-principles computation (finite-difference slopes of von Karman phase at the projected
sub-aperture positions, summed over layers) and with a freshly constructed object.
"""
import sys

import numpy
import scipy.special

from aotools.turbulence import slopecovariance as sc


def d_vk(r, r0, L0):
    r = numpy.asarray(r, dtype=float)
    rr = numpy.where(r == 0, 1.0, r)
    x = 2 * numpy.pi * rr / L0
    val = 0.17253 * (L0 / r0) ** (5. / 3.) * (
        1 - 2 ** (1. / 6.) / scipy.special.gamma(5. / 6.) * x ** (5. / 6.) * scipy.special.kv(5. / 6., x))
    return numpy.where(r == 0, 0.0, val)


def reference(masks, tel_diam, subap_diams, gs_alts, gs_pos, wvls, alts, r0s, L0s):
    """covariance of finite-difference slopes, float64, ordered per sensor as x-slopes then y-slopes"""
    n_wfs = len(masks)
    pup = []
    for w in range(n_wfs):
        idx = numpy.argwhere(numpy.asarray(masks[w]) == 1).astype(float)
        pup.append(idx * subap_diams[w] - tel_diam / 2. - subap_diams[w] / 2.)
    n = [len(p) for p in pup]
    off = numpy.concatenate([[0], 2 * numpy.cumsum(n)])
    out = numpy.zeros((off[-1], off[-1]))
    for h, r0, L0 in zip(alts, r0s, L0s):
        ends = []   # per wfs, per axis: (plus edge, minus edge, scale)
        for w in range(n_wfs):
            s = (1 - h / gs_alts[w]) if gs_alts[w] != 0 else 1.
            centre = s * pup[w] + numpy.asarray(gs_pos[w], dtype=float) * numpy.pi / 180 / 3600 * h
            d = subap_diams[w] * s
            per_axis = []
            for ax in range(2):
                e = numpy.zeros(2)
                e[ax] = d / 2.
                per_axis.append((centre + e, centre - e, wvls[w] / (2 * numpy.pi * d)))
            ends.append(per_axis)
        for wi in range(n_wfs):
            for wj in range(n_wfs):
                for ai in range(2):
                    for aj in range(2):
                        ap, am, ki = ends[wi][ai]
                        bp, bm, kj = ends[wj][aj]

                        def D(p, q):
                            diff = p[:, None, :] - q[None, :, :]
                            return d_vk(numpy.sqrt((diff ** 2).sum(-1)), r0, L0)
                        cov = 0.5 * (-D(ap, bp) + D(ap, bm) + D(am, bp) - D(am, bm)) * ki * kj
                        r = off[wi] + ai * n[wi]
                        c = off[wj] + aj * n[wj]
                        out[r:r + n[wi], c:c + n[wj]] += cov
    return out


def worst(a, b):
    scale = numpy.abs(numpy.diag(b)).max()
    return numpy.abs(a - b).max() / scale


def main():
    mask_a = numpy.array([[0, 1, 1, 0],
                          [1, 1, 1, 1],
                          [1, 1, 0, 1],
                          [0, 1, 1, 0]])
    mask_b = numpy.array([[1, 1, 0, 0],
                          [1, 1, 1, 0],
                          [0, 1, 1, 1],
                          [0, 0, 1, 1]])
    masks = [mask_a, mask_b]
    tel = 4.0
    diams = [1.0, 1.0]
    gs_alts = [0, 90000.]
    gs_pos = numpy.array([[12., -5.], [-20., 9.]])
    wvls = [600e-9, 589e-9]

    profiles = [
        (numpy.array([0., 4000., 11000.]), [0.25, 0.5, 0.8], [25., 30., 40.]),
        (numpy.array([500., 7500., 16000.]), [0.3, 0.45, 0.7], [20., 35., 50.]),
        (numpy.array([0., 2000., 9000.]), [0.2, 0.6, 0.9], [25., 25., 25.]),
    ]

    failures = []

    alts, r0s, L0s = profiles[0]
    cm = sc.CovarianceMatrix(2, masks, tel, diams, gs_alts, gs_pos, wvls, len(alts), alts, r0s, L0s)

    for step, (alts, r0s, L0s) in enumerate(profiles):
        # profile sweep on one and the same builder object
        cm.n_layers = len(alts)
        cm.layer_altitudes = alts
        cm.layer_r0s = r0s
        cm.layer_L0s = L0s
        got = numpy.array(cm.make_covariance_matrix(), dtype=float)

        ref = reference(masks, tel, diams, gs_alts, gs_pos, wvls, alts, r0s, L0s)
        fresh = numpy.array(sc.CovarianceMatrix(
            2, masks, tel, diams, gs_alts, gs_pos, wvls, len(alts), alts, r0s, L0s).make_covariance_matrix(),
            dtype=float)

        e_ref = worst(got, ref)
        e_fresh = worst(got, fresh)
        print("build %d: max |matrix - true covariance| / max variance = %.3e ; vs fresh object = %.3e"
              % (step + 1, e_ref, e_fresh))
        if not numpy.array_equal(got, got.T):
            failures.append("build %d: matrix is not symmetric" % (step + 1))
        if e_ref > 2e-5:
            failures.append(
                "build %d (layers at %s m): entries differ from the covariance of the finite-difference slopes "
                "by %.3e of the largest variance" % (step + 1, [float(a) for a in alts], e_ref))
        if e_fresh > 1e-6:
            failures.append(
                "build %d: the reused builder object and a freshly constructed one disagree (%.3e) for identical "
                "sensors and atmosphere" % (step + 1, e_fresh))

    if failures:
        print("C01 VIOLATED:")
        for f in failures:
            print("  - " + f)
        return 1
    print("C01 holds for every build of the profile sweep")
    return 0


if __name__ == "__main__":
    sys.exit(main())
