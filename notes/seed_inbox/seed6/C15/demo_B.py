"""C15: the correlation centroid of an image displaced by s from its reference is displaced
by s from the array centre, for any padding, for every (image, reference) pair -- also when a
real-time loop keeps ONE reference buffer and refreshes its contents in place between calls."""
import sys
import numpy
from aotools.image_processing import correlation_centroid

TOL = 1e-3   # spots are truncated Gaussians; a wrong reference shows as a whole-pixel error
failures = []


def spot(ny, nx, y0, x0, wy, wx):
    y, x = numpy.indices((ny, nx))
    return 100.0 * numpy.exp(-((x - x0) ** 2 / wx + (y - y0) ** 2 / wy)) + 3.0


def check(name, got, want):
    got = numpy.asarray(got, dtype=float)
    want = numpy.asarray(want, dtype=float)
    if got.shape != want.shape or not numpy.allclose(got, want, rtol=0, atol=TOL):
        failures.append("%s: got %s, expected %s" % (name, got.tolist(), want.tolist()))


def PAIRS(ny, nx):
    # (spot position in the reference, displacement of the image): content stays well inside the frame
    cy, cx = ny // 2, nx // 2
    return (((cy, cx - 1), (1, 2)), ((cy - 1, cx + 1), (-2, 1)), ((cy + 1, cx), (1, -2)))


def displaced(ref, sy, sx):
    return numpy.roll(numpy.roll(ref, sy, axis=0), sx, axis=1)


for ny, nx in ((16, 16), (12, 18), (15, 11)):
    for padding in (1, 2, 3):
        centre = numpy.array([nx // 2, ny // 2], dtype=float)

        # (1) every pair on its own, fresh arrays each time
        for (y0, x0), (sy, sx) in PAIRS(ny, nx):
            ref = spot(ny, nx, y0, x0, 0.8, 1.1)
            im = displaced(ref, sy, sx)
            got = correlation_centroid(im, ref, 0.5, padding)[:, 0]
            check("fresh arrays %dx%d padding=%d s=(%d,%d)" % (ny, nx, padding, sx, sy), got - centre, [sx, sy])

        # (2) the same pairs, but the reference lives in one long-lived buffer that is
        #     refreshed in place (as a wavefront-sensor loop tracking an extended scene does)
        ref_buffer = numpy.zeros((ny, nx))
        for (y0, x0), (sy, sx) in PAIRS(ny, nx):
            ref_buffer[...] = spot(ny, nx, y0, x0, 0.8, 1.1)
            im = displaced(ref_buffer, sy, sx)
            stack = numpy.array([im, displaced(ref_buffer, sy + 1, sx - 1)])
            got = correlation_centroid(stack, ref_buffer, 0.5, padding)
            want = numpy.array([[sx, sx - 1], [sy, sy + 1]]) + centre[:, None]
            check("reused reference buffer %dx%d padding=%d s=(%d,%d)" % (ny, nx, padding, sx, sy), got, want)
            # stack == frames alone, on the same buffer
            alone = numpy.hstack([correlation_centroid(f, ref_buffer, 0.5, padding) for f in stack])
            check("stack vs alone %dx%d padding=%d" % (ny, nx, padding), got, alone)

if failures:
    print("C15 violated: %d checks failed; first ones:" % len(failures))
    for f in failures[:8]:
        print("  " + f)
    sys.exit(1)
print("C15 holds for all (image, reference) pairs and call histories checked")
sys.exit(0)
