"""C15: a thresholded centre of gravity is unchanged when the image is multiplied by a
positive constant, whatever the pixel type of the frame (detector frames are integer counts).
Also re-checks the single-pixel, shift and stack clauses on the same frames."""
import sys
import numpy
from aotools.image_processing import centre_of_gravity

TOL = 1e-9
failures = []


def spot(ny, nx, y0, x0, peak):
    y, x = numpy.indices((ny, nx))
    return peak * numpy.exp(-((x - x0) ** 2 / 5.0 + (y - y0) ** 2 / 3.0))


def check(name, got, want, tol=TOL):
    got = numpy.asarray(got, dtype=float)
    want = numpy.asarray(want, dtype=float)
    if got.shape != want.shape or not numpy.allclose(got, want, rtol=0, atol=tol):
        failures.append("%s: got %s, expected %s" % (name, got.tolist(), want.tolist()))


for dtype in (numpy.float64, numpy.uint8, numpy.uint16, numpy.int32, numpy.int64):
    for (ny, nx), peak in (((12, 15), 7), ((16, 16), 25), ((9, 14), 203)):
        frame = numpy.round(spot(ny, nx, 4.3, 6.6, peak)).astype(dtype)
        frame[1, 2] += 1   # make it asymmetric
        for threshold in (0.0, 0.1, 0.3, 0.45, 0.7):
            tag = "%s %dx%d peak=%d threshold=%g" % (numpy.dtype(dtype).name, ny, nx, peak, threshold)
            base = centre_of_gravity(frame, threshold)

            # scale: same frame times a positive constant (exact in every dtype used here)
            for c in (2, 3, 10):
                if int(frame.max()) * c > numpy.iinfo(dtype).max if numpy.dtype(dtype).kind in "iu" else False:
                    continue
                scaled = (frame * c).astype(dtype)
                check("scale x%d [%s]" % (c, tag), centre_of_gravity(scaled, threshold), base)
            # the same counts held as floating point, times a non-integer constant
            check("scale x2.5 as float [%s]" % tag,
                  centre_of_gravity(frame.astype(numpy.float64) * 2.5, threshold), base)

            # shift by (2, 3) pixels inside a larger zero frame
            big = numpy.zeros((ny + 8, nx + 8), dtype=dtype)
            big[2:2 + ny, 1:1 + nx] = frame
            moved = numpy.zeros_like(big)
            moved[2 + 2:2 + 2 + ny, 1 + 3:1 + 3 + nx] = frame
            check("shift [%s]" % tag, centre_of_gravity(moved, threshold) - centre_of_gravity(big, threshold),
                  [3.0, 2.0])

            # stack == frames alone
            stack = numpy.array([frame, frame[::-1].copy(), (frame // 2).astype(dtype) + frame[:, ::-1]])
            alone = numpy.array([centre_of_gravity(f, threshold) for f in stack]).T
            check("stack [%s]" % tag, centre_of_gravity(stack, threshold), alone)

        # single bright pixel
        one = numpy.zeros((ny, nx), dtype=dtype)
        one[3, 7] = peak
        check("single pixel [%s %dx%d]" % (numpy.dtype(dtype).name, ny, nx), centre_of_gravity(one, 0.2), [7.0, 3.0])

if failures:
    print("C15 violated: %d checks failed; first ones:" % len(failures))
    for f in failures[:8]:
        print("  " + f)
    sys.exit(1)
print("C15 holds on all checked frames")
sys.exit(0)
