"""C18 / optimal grouping: the compressed profile costs no more than the equal split.

The profile has a few layers without turbulence (strength exactly 0), as measured
profiles often do.  For several target layer counts and several states of NumPy's
global random generator the result must
  * have exactly L layers, non-negative strengths, the same total Cn2,
  * use input heights in strictly increasing order,
  * have a grouping cost  sum_i p_i |h_i - H_group(i)|  that is no worse than the
    cost of the (approximately) equal split of the layers into L groups.
"""
import sys
import numpy
from aotools.turbulence import optimal_grouping


def group_cost(h, p, groups):
    """cost of a grouping with the best representative height per group"""
    total = 0.
    for g in groups:
        total += min((p[g] * numpy.abs(h[g] - hc)).sum() for hc in h[g])
    return total


def equal_split_cost(h, p, L):
    N = len(p)
    edges = numpy.linspace(0, N, L + 1, dtype=int)[1:-1]
    groups = numpy.split(numpy.arange(N), edges + 1)
    return group_cost(h, p, groups)


def returned_cost(h, p, hL, pL):
    """cost of the returned compression: every input layer that carries turbulence is
    charged to the compressed layer its strength was added to (found from the running
    totals), layers without turbulence cost nothing wherever they went"""
    cp = numpy.cumsum(p)
    cL = numpy.cumsum(pL)
    cost = 0.
    for i in numpy.flatnonzero(p):
        k = int(numpy.searchsorted(cL * (1 + 1e-12), cp[i]))
        k = min(k, len(hL) - 1)
        cost += p[i] * abs(h[i] - hL[k])
    return cost


def main():
    rs = numpy.random.RandomState(1234)
    N = 36
    h = numpy.arange(N) * 500.
    p = (0.1 + rs.random_sample(N)) * 1e-14
    p[0] = 6e-13                      # strong ground layer
    p[[7, 15, 16, 24, 30]] = 0.       # altitude bins in which nothing was measured

    failures = []
    for L in (2, 3, 4, 6):
        ref = equal_split_cost(h, p, L)
        for seed in (0, 1, 2):
            numpy.random.seed(seed)
            hL, pL = optimal_grouping(5, L, h, p)
            tag = "L=%d seed=%d" % (L, seed)
            if len(hL) != L or len(pL) != L:
                failures.append("%s: %d heights / %d strengths returned" % (tag, len(hL), len(pL)))
                continue
            if (pL < 0).any():
                failures.append("%s: negative strength" % tag)
            if abs(pL.sum() - p.sum()) > 1e-12 * p.sum():
                failures.append("%s: total Cn2 %.6e != %.6e" % (tag, pL.sum(), p.sum()))
            if not numpy.isin(hL, h).all() or not (numpy.diff(hL) > 0).all():
                failures.append("%s: heights %s are not increasing input heights" % (tag, hL))
            cost = returned_cost(h, p, hL, pL)
            if cost > ref * (1 + 1e-9):
                failures.append("%s: cost %.4e is worse than the equal split %.4e" % (tag, cost, ref))

    if failures:
        print("C18 violated (optimal_grouping):")
        for f in failures:
            print("  " + f)
        return 1
    print("ok: optimal grouping is never worse than the equal split")
    return 0


if __name__ == "__main__":
    sys.exit(main())
