"""C18 / optimal grouping: L layers, total conserved, heights are input heights in
increasing order - also for sparse profiles.

A sparse profile (turbulence in only a few of the altitude bins, the others exactly 0)
is compressed to more layers than it has turbulent bins, so some compressed layers
necessarily hold no turbulence.  Every compressed layer must still sit on one of the
input heights of its own group, i.e. the L returned heights are L different input
heights in increasing order, and the equal-split cost bound must hold.
"""
import sys
import numpy
from aotools.turbulence import optimal_grouping


def equal_split_cost(h, p, L):
    N = len(p)
    edges = numpy.linspace(0, N, L + 1, dtype=int)[1:-1]
    cost = 0.
    for g in numpy.split(numpy.arange(N), edges + 1):
        cost += min((p[g] * numpy.abs(h[g] - hc)).sum() for hc in h[g])
    return cost


def returned_cost(h, p, hL, pL):
    cp, cL = numpy.cumsum(p), numpy.cumsum(pL)
    cost = 0.
    for i in numpy.flatnonzero(p):
        k = min(int(numpy.searchsorted(cL * (1 + 1e-12), cp[i])), len(hL) - 1)
        cost += p[i] * abs(h[i] - hL[k])
    return cost


def check(name, h, p, L, seed, failures):
    tag = "%s L=%d seed=%d" % (name, L, seed)
    numpy.random.seed(seed)
    try:
        hL, pL = optimal_grouping(4, L, h, p)
    except Exception as exc:                       # every call in the domain must return a profile
        failures.append("%s: raised %s: %s" % (tag, type(exc).__name__, exc))
        return
    if len(hL) != L or len(pL) != L:
        failures.append("%s: %d heights / %d strengths returned" % (tag, len(hL), len(pL)))
        return
    if (pL < 0).any():
        failures.append("%s: negative strength" % tag)
    if abs(pL.sum() - p.sum()) > 1e-12 * p.sum():
        failures.append("%s: total Cn2 %.6e != %.6e" % (tag, pL.sum(), p.sum()))
    if not numpy.isin(hL, h).all():
        failures.append("%s: heights %s are not all input heights" % (tag, hL))
    if not (numpy.diff(hL) > 0).all():
        failures.append("%s: heights %s are not in increasing order "
                        "(two compressed layers share a height)" % (tag, hL))
    if returned_cost(h, p, hL, pL) > equal_split_cost(h, p, L) * (1 + 1e-9) + 1e-300:
        failures.append("%s: cost worse than the equal split" % tag)


def main():
    failures = []
    h = numpy.arange(12) * 1000.

    # turbulence in 4 of 12 bins, top bins empty
    p1 = numpy.array([5, 0, 0, 3, 0, 0, 0, 2, 0, 0, 0, 0.]) * 1e-14
    # turbulence in 5 of 12 bins, empty stretch in the middle
    p2 = numpy.array([5, 1, 0, 0, 0, 0, 0, 0, 2, 4, 0, 1.]) * 1e-14
    # dense profile of the same size as a control: no empty bins at all
    p3 = (1 + numpy.arange(12) % 4) * 1e-14

    for name, p in (("sparse-top", p1), ("sparse-mid", p2), ("dense", p3)):
        for L in (2, 3, 5, 6, 8, 11):
            for seed in (0, 7):
                check(name, h, p, L, seed, failures)

    if failures:
        print("C18 violated (optimal_grouping):")
        for f in failures:
            print("  " + f)
        return 1
    print("ok: optimal grouping returns L increasing input heights for sparse profiles too")
    return 0


if __name__ == "__main__":
    sys.exit(main())
