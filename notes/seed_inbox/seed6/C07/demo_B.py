"""
C07: over the draws of the random generator an FFT phase screen has zero mean and, at every pixel, the
variance  sum_f PSD(f) del_f^2  of the modified von Karman spectrum on the screen's frequency grid (zero
frequency removed); its covariance between pixels is the inverse discrete Fourier sum of that spectrum.

The ensemble is sampled the way a Monte-Carlo run does it: M screens made one after the other with no seed.
Sample mean, sample variance and the sample covariance at one-pixel lag are compared with the exact values
(tolerances of 6 standard errors and more).  Exit 0 if they agree, 1 otherwise.
"""
import sys

import numpy

from aotools.turbulence import ft_phase_screen, ft_sh_phase_screen

R0, N, DELTA, L0, l0 = 0.2, 8, 0.1, 10., 0.01
M = 3000


def exact_covariance(r0, N, delta, L0, l0):
    """Covariance as a function of the pixel lag (dx, dy): inverse DFT sum of the sampled spectrum."""
    del_f = 1. / (N * delta)
    k = numpy.arange(-N // 2, N // 2)
    kx, ky = numpy.meshgrid(k, k)
    f = numpy.hypot(kx, ky) * del_f
    fm = 5.92 / l0 / (2 * numpy.pi)
    psd = 0.023 * r0 ** (-5. / 3) * numpy.exp(-(f / fm) ** 2) * (f ** 2 + 1. / L0 ** 2) ** (-11. / 6)
    psd[kx ** 2 + ky ** 2 == 0] = 0.
    cov = numpy.zeros((N, N))
    for dy in range(N):
        for dx in range(N):
            cov[dy, dx] = (psd * del_f ** 2 * numpy.cos(2 * numpy.pi * (kx * dx + ky * dy) / N)).sum()
    return cov


def check(name, make):
    failures = []
    cov = exact_covariance(R0, N, DELTA, L0, l0)
    var = cov[0, 0]
    sigma = numpy.sqrt(var)

    scrns = numpy.array([make() for i in range(M)])

    mean = scrns.mean(axis=0)
    worst_mean = numpy.abs(mean).max() / (sigma / numpy.sqrt(M))
    samp_var = scrns.var(axis=0)
    rel_var = samp_var.mean() / var
    lag1 = (scrns[:, :, 1:] * scrns[:, :, :-1]).mean() / cov[0, 1]
    n_distinct = len({s.tobytes() for s in scrns})

    print("%s: %d unseeded screens, %d distinct" % (name, M, n_distinct))
    print("  largest |sample mean| of a pixel      : %.2f standard errors" % worst_mean)
    print("  pixel-averaged sample variance / exact : %.4f" % rel_var)
    print("  lag-1 sample covariance / exact        : %.4f" % lag1)

    if not worst_mean < 6.:
        failures.append("ensemble mean is not zero: a pixel's sample mean is %.1f standard errors from 0"
                        % worst_mean)
    if not abs(rel_var - 1) < 0.15:
        failures.append("ensemble variance is %.4f of the inverse DFT sum of the spectrum" % rel_var)
    if not abs(lag1 - 1) < 0.15:
        failures.append("ensemble covariance at one-pixel lag is %.4f of the exact value" % lag1)
    return ["%s: %s" % (name, f) for f in failures]


def main():
    failures = []
    failures += check("ft_phase_screen", lambda: ft_phase_screen(R0, N, DELTA, L0, l0))
    # the sub-harmonic variant only adds (low-frequency) power: its variance is not below the FFT screen's,
    # and its mean is zero as well
    var = exact_covariance(R0, N, DELTA, L0, l0)[0, 0]
    sh = numpy.array([ft_sh_phase_screen(R0, N, DELTA, L0, l0) for i in range(M)])
    sh_var = sh.var(axis=0).mean()
    # standard error of a pixel's mean, from the sample itself
    sh_mean = numpy.abs(sh.mean(axis=0)).max() / (numpy.sqrt(sh.var(axis=0).max() + 1e-300) / numpy.sqrt(M))
    print("ft_sh_phase_screen: sample variance / FFT-screen variance: %.4f, largest |mean|: %.2f std. errors"
          % (sh_var / var, sh_mean))
    if not sh_var > 0.85 * var:
        failures.append("ft_sh_phase_screen: ensemble variance %.4f of the FFT screen's: power was removed"
                        % (sh_var / var))
    if not sh_mean < 6.:
        failures.append("ft_sh_phase_screen: ensemble mean is not zero (%.1f standard errors)" % sh_mean)

    if failures:
        for f in failures:
            print("FAIL: " + f)
        return 1
    print("OK")
    return 0


if __name__ == "__main__":
    sys.exit(main())
