"""
C07: an FFT phase screen is a linear function of ITS OWN Gaussian draws (a seed fixes the screen, and for
fixed draws the amplitude scales exactly as r0^(-5/6)) -- whatever else the process is doing.

Two threads each make a screen of the same size (a simulation making its layers in a thread pool).  The
schedule is made deterministic: the generator of screen 1 pauses between its two draws (real part drawn,
imaginary part not yet) until screen 2 has been made completely by the other thread.

Screen 1 must still be exactly the screen of its seed, and must still scale as r0^(-5/6).
Exit 0 if so, 1 otherwise.
"""
import sys
import threading

import numpy

from aotools.turbulence import phasescreen

N, DELTA, L0, l0 = 16, 0.1, 20., 0.01
R0_1, SEED_1 = 0.2, 11
R0_2, SEED_2 = 0.05, 22


class PausingGenerator(numpy.random.Generator):
    """A generator that waits, before its second draw, until it is told to go on."""

    def __init__(self, bit_generator):
        super().__init__(bit_generator)
        self.calls = 0
        self.reached = threading.Event()
        self.resume = threading.Event()

    def normal(self, *args, **kwargs):
        self.calls += 1
        if self.calls == 2:
            self.reached.set()
            if not self.resume.wait(60):
                raise RuntimeError("schedule not completed")
        return super().normal(*args, **kwargs)


def main():
    failures = []

    # the screens of the two seeds, made one after the other with nothing else going on
    alone_1 = phasescreen.ft_phase_screen(R0_1, N, DELTA, L0, l0, seed=SEED_1).copy()
    alone_2 = phasescreen.ft_phase_screen(R0_2, N, DELTA, L0, l0, seed=SEED_2).copy()
    alone_1_other_r0 = phasescreen.ft_phase_screen(2 * R0_1, N, DELTA, L0, l0, seed=SEED_1).copy()

    gen = PausingGenerator(numpy.random.PCG64(SEED_1))
    result = {}

    def make_screen_1():
        try:
            result["scrn"] = phasescreen.ft_phase_screen(R0_1, N, DELTA, L0, l0, seed=gen)
        except Exception as exc:      # pragma: no cover
            result["error"] = exc

    t = threading.Thread(target=make_screen_1)
    t.start()
    if not gen.reached.wait(60):
        print("FAIL: screen 1 never reached its second draw")
        return 1
    # screen 1 is half drawn; the other thread now makes screen 2 (same size, other r0, other seed)
    inter_2 = phasescreen.ft_phase_screen(R0_2, N, DELTA, L0, l0, seed=SEED_2)
    gen.resume.set()
    t.join(60)
    if "error" in result:
        print("FAIL: screen 1 raised %r" % (result["error"],))
        return 1
    inter_1 = result["scrn"]

    scale = numpy.abs(alone_1).max()
    err_1 = numpy.abs(inter_1 - alone_1).max() / scale
    err_2 = numpy.abs(inter_2 - alone_2).max() / numpy.abs(alone_2).max()
    err_r0 = numpy.abs(inter_1 - alone_1_other_r0 * 2 ** (5. / 6)).max() / scale

    print("screen 1 made while screen 2 was made in between its draws:")
    print("  relative deviation from the screen of its seed       : %.3e" % err_1)
    print("  relative deviation from 2^(5/6) x screen at 2 r0     : %.3e" % err_r0)
    print("  screen 2, relative deviation from screen of its seed : %.3e" % err_2)

    if not err_1 < 1e-12:
        failures.append("screen 1 is not the linear function of its own draws (seed %d): rel. dev. %.3e"
                        % (SEED_1, err_1))
    if not err_r0 < 1e-12:
        failures.append("screen 1 does not scale as r0^(-5/6) for fixed draws: rel. dev. %.3e" % err_r0)
    if not err_2 < 1e-12:
        failures.append("screen 2 is not the screen of its seed: rel. dev. %.3e" % err_2)

    # the interleaved screen must also have no piston (zero frequency removed)
    if not abs(inter_1.mean()) < 1e-12 * scale:
        failures.append("screen 1 has a piston term: mean %.3e" % inter_1.mean())

    if failures:
        for f in failures:
            print("FAIL: " + f)
        return 1
    print("OK")
    return 0


if __name__ == "__main__":
    sys.exit(main())
