"""C12 demo A: Zernike modes are orthonormal over the pupil for EVERY rotation `rot`.

Under Noll normalisation the Gram matrix  G[a, b] = <Z_a, Z_b> / (pupil pixels)  must tend to the
identity as the grid is refined -- for every value of the `rot` argument, on odd and even grids,
through every entry point (zernike_nm, zernike_noll, zernikeArray, phaseFromZernikes).
Exit 0 if it does, exit 1 (with a report) if not.
"""
import sys

import numpy

from aotools.functions import zernike, pupil

NMODES = 21          # radial orders 0..5
TOL = 0.03           # pixelation error at N ~ 200 is well below this (about 1e-2 at worst)
problems = []


def gram(Zs, N):
    npix = pupil.circle(N / 2., N).sum()
    flat = Zs.reshape(len(Zs), -1)
    return flat.dot(flat.T) / npix


for N in (200, 201):
    for rot in (0, 0.3, -0.7, 1.0, numpy.pi / 3, 2.5):
        # entry point 1: the array builder
        Zs = zernike.zernikeArray(NMODES, N, rot=rot)
        G = gram(Zs, N)
        dev = numpy.abs(G - numpy.identity(NMODES))
        worst = numpy.unravel_index(numpy.argmax(dev), dev.shape)
        if dev.max() > TOL:
            problems.append(
                "zernikeArray(%d, %d, rot=%.4g): Gram matrix deviates from identity by %.3f at "
                "Noll indices (%d, %d)  [(n,m) = %s and %s]"
                % (NMODES, N, rot, dev.max(), worst[0] + 1, worst[1] + 1,
                   zernike.zernIndex(worst[0] + 1), zernike.zernIndex(worst[1] + 1)))

        # entry point 2: single modes by (n, m), cosine/sine partners of the same (n, |m|)
        for (n, m) in ((1, 1), (2, 2), (3, 1), (4, 2), (5, 5)):
            c = zernike.zernike_nm(n, m, N, rot)
            s = zernike.zernike_nm(n, -m, N, rot=rot)
            npix = pupil.circle(N / 2., N).sum()
            ip = (c * s).sum() / npix
            if abs(ip) > TOL:
                problems.append(
                    "zernike_nm: <Z(n=%d,m=%d), Z(n=%d,m=%d)> = %.3f at N=%d, rot=%.4g (should be ~0)"
                    % (n, m, n, -m, ip, N, rot))

    # entry point 3: phase from coefficients -- Parseval: mean square of the phase over the pupil is
    # the sum of squared coefficients when the modes are orthonormal
    rng = numpy.random.RandomState(12)
    coeffs = rng.normal(size=NMODES)
    for rot in (0, 0.6):
        phase = zernike.phaseFromZernikes(coeffs, N, rot=rot)
        ms = (phase ** 2).sum() / pupil.circle(N / 2., N).sum()
        expect = (coeffs ** 2).sum()
        if abs(ms - expect) > TOL * expect * 3:
            problems.append(
                "phaseFromZernikes(N=%d, rot=%.3g): pupil mean-square %.4f but sum of squared "
                "coefficients is %.4f (modes not orthonormal)" % (N, rot, ms, expect))

if problems:
    print("C12 VIOLATED: Noll-normalised modes are not orthonormal for some rotation")
    for p in problems[:12]:
        print("  -", p)
    if len(problems) > 12:
        print("  ... and %d more" % (len(problems) - 12))
    sys.exit(1)

print("ok: Gram matrix is the identity (within pixelation) for all tested rotations and grid sizes")
sys.exit(0)
