"""C12 demo B: the gamma matrices reproduce the actual x- and y-gradients of every Zernike mode.

For every radial order nzrad and every mode i < nzmax:
    dZ_i/dx = sum_j gamx[i, j] Z_j        dZ_i/dy = sum_j gamy[i, j] Z_j
The left-hand sides are taken from the library's own modes by 4th-order central differences on a
fine grid (well inside the pupil, away from the mask edge).  Exit 0 if they agree, 1 otherwise.
"""
import sys

import numpy

from aotools.functions import zernike

N = 256
H = 2.0 / N                      # pixel pitch in unit-radius coordinates
TOL = 2e-3
MAX_RADIAL_ORDER = 8

coords = (numpy.arange(N) - N / 2. + 0.5) / (N / 2.)
X, Y = numpy.meshgrid(coords, coords)
interior = (numpy.sqrt(X ** 2 + Y ** 2) < 0.9)[2:-2, 2:-2]


def ddx(Z):
    return (-Z[2:-2, 4:] + 8 * Z[2:-2, 3:-1] - 8 * Z[2:-2, 1:-3] + Z[2:-2, :-4]) / (12 * H)


def ddy(Z):
    return (-Z[4:, 2:-2] + 8 * Z[3:-1, 2:-2] - 8 * Z[1:-3, 2:-2] + Z[:-4, 2:-2]) / (12 * H)


problems = []
for nzrad in range(0, MAX_RADIAL_ORDER + 1):
    gam = zernike.makegammas(nzrad)
    nzmax = (nzrad + 1) * (nzrad + 2) // 2
    if gam.shape != (2, nzmax, nzmax):
        problems.append("makegammas(%d): shape %s, expected %s" % (nzrad, gam.shape, (2, nzmax, nzmax)))
        continue
    Zs = zernike.zernikeArray(nzmax, N)
    inner = Zs[:, 2:-2, 2:-2]
    for i in range(nzmax):
        for axis, name, deriv in ((0, "x", ddx), (1, "y", ddy)):
            actual = deriv(Zs[i])
            predicted = numpy.tensordot(gam[axis, i].astype(float), inner, axes=1)
            scale = max(1.0, numpy.abs(actual[interior]).max())
            err = numpy.abs(actual - predicted)[interior].max() / scale
            if err > TOL:
                n, m = zernike.zernIndex(i + 1)
                problems.append(
                    "makegammas(%d): d/d%s of Noll mode %d (n=%d, m=%d) is not the gamma-%s "
                    "combination of lower modes (relative error %.3f; row = %s)"
                    % (nzrad, name, i + 1, n, m, name, err,
                       {j + 1: round(float(v), 3) for j, v in enumerate(gam[axis, i]) if v != 0}))

if problems:
    print("C12 VIOLATED: gamma matrices do not reproduce the mode gradients")
    for p in problems[:10]:
        print("  -", p)
    if len(problems) > 10:
        print("  ... and %d more" % (len(problems) - 10))
    sys.exit(1)

print("ok: gamma matrices reproduce d/dx and d/dy of all modes up to radial order %d" % MAX_RADIAL_ORDER)
sys.exit(0)
