"""
C19 - the structure-function estimator returns, for every lag j that fits into the array, the mean squared
difference of the phase with itself shifted by j*step along the first axis (a ramp of slope a gives a^2 (j*step)^2).

Checked here on arrays that are wider than tall, asking for as many points as there are usable lags, so that the
last lag (rows - 1, a single pair of rows) is reached; also on ordinary square arrays with the default arguments.
Exits 0 when every lag agrees with the definition, 1 otherwise.
"""
import sys
import numpy

from aotools.turbulence.slopecovariance import calculate_structure_function

failures = []


def by_definition(phase, n_points, step):
    ref = numpy.zeros(n_points)
    for j in range(1, n_points):
        lag = j * step
        ref[j] = numpy.mean((phase[:-lag, :] - phase[lag:, :]) ** 2)
    return ref


def check(label, phase, nb, step):
    kwargs = {}
    if nb is not None:
        kwargs["nbOfPoint"] = nb
    if step is not None:
        kwargs["step"] = step
    sf = calculate_structure_function(phase, **kwargs)
    st = 1 if step is None else step
    ref = by_definition(phase, len(sf), st)
    if sf[0] != 0:
        failures.append("%s: value at lag 0 is %r, not 0" % (label, sf[0]))
    if not numpy.allclose(sf, ref, rtol=1e-12, atol=0, equal_nan=True):
        bad = numpy.flatnonzero(~numpy.isclose(sf, ref, rtol=1e-12, atol=0, equal_nan=True))
        j = int(bad[0])
        failures.append("%s: index %d (lag %d px) is %r, the mean squared difference is %r"
                        % (label, j, j * st, sf[j], ref[j]))


rng = numpy.random.RandomState(19)

# ordinary use: square array, default arguments, and a step
sq = rng.standard_normal((32, 32))
check("32x32 random, defaults", sq, None, None)
check("32x32 random, step 2", sq, None, 2)

# wide arrays (more columns than rows) with every lag that fits requested
for rows, cols, step in [(16, 64, 1), (16, 64, 3), (10, 48, 1), (21, 90, 4), (9, 40, 2)]:
    n_lags = (rows - 1) // step + 1          # lags 0, step, ..., <= rows - 1
    wide = rng.standard_normal((rows, cols))
    check("%dx%d random, nbOfPoint=%d, step=%d" % (rows, cols, n_lags, step), wide, n_lags, step)

    # a ramp of slope a along the first axis: exactly a^2 (j*step)^2
    a = 0.75
    ramp = a * numpy.arange(rows, dtype=float)[:, None] * numpy.ones((1, cols))
    sf = calculate_structure_function(ramp, nbOfPoint=n_lags, step=step)
    exact = (a * step * numpy.arange(len(sf))) ** 2
    if not numpy.allclose(sf, exact, rtol=1e-12, atol=0):
        j = int(numpy.flatnonzero(~numpy.isclose(sf, exact, rtol=1e-12, atol=0))[0])
        failures.append("%dx%d ramp of slope %g, step %d: index %d is %r, a^2 (j*step)^2 = %r"
                        % (rows, cols, a, step, j, sf[j], exact[j]))

if failures:
    print("C19 violated: structure-function estimator does not match its definition")
    for f in failures:
        print("  -", f)
    sys.exit(1)
print("ok: structure function equals the mean squared difference at every lag that fits")
sys.exit(0)
