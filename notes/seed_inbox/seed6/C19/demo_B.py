"""
C19 - the temporal power spectrum of slope data is the squared modulus of the Fourier transform along the frame
axis, averaged over (all) sub-apertures; it obeys Parseval's identity and is quadratic in amplitude.

Checked against a direct DFT on generic slope data and on slope data in which some sub-aperture columns are
identically zero (an unilluminated / padded sub-aperture, a pure sinusoid present in only part of the pupil),
for 2-d input and for input with leading dimensions.  Exits 0 if everything agrees, 1 otherwise.
"""
import sys
import numpy

from aotools.turbulence.temporal_ps import calc_slope_temporalps

failures = []


def direct_tps(slopes):
    """|DFT along the frame axis|^2 for k < n_frames // 2, plain mean over the last (sub-aperture) axis."""
    n = slopes.shape[-2]
    t = numpy.arange(n)
    k = numpy.arange(n // 2)
    w = numpy.exp(-2j * numpy.pi * numpy.outer(k, t) / n)          # (n//2, n)
    ft = numpy.einsum("kt,...ts->...ks", w, slopes)
    return (abs(ft) ** 2).sum(-1) / slopes.shape[-1]


def check_definition(label, slopes):
    tps, _ = calc_slope_temporalps(slopes)
    ref = direct_tps(slopes)
    if tps.shape != ref.shape:
        failures.append("%s: spectrum has shape %r, expected %r" % (label, tps.shape, ref.shape))
        return
    scale = abs(ref).max() or 1.0
    if not numpy.allclose(tps, ref, rtol=1e-9, atol=1e-9 * scale, equal_nan=False):
        idx = numpy.unravel_index(numpy.argmax(abs(numpy.nan_to_num(tps, nan=numpy.inf) - ref)), ref.shape)
        failures.append("%s: spectrum%r is %r, but |FT|^2 averaged over the %d sub-apertures is %r"
                        % (label, tuple(int(i) for i in idx), float(tps[idx]), slopes.shape[-1], float(ref[idx])))


def check_parseval(label, slopes):
    """sum over the full spectrum of <|F_k|^2> = n_frames * <sum_t x_t^2>, < > the mean over sub-apertures."""
    n = slopes.shape[-2]
    tps, _ = calc_slope_temporalps(slopes)
    total = tps[..., 0] + 2 * tps[..., 1:].sum(-1)
    # bins the half spectrum leaves out (the Nyquist bin for even n; for odd n bin (n-1)/2 and its mirror)
    sign = numpy.exp(-2j * numpy.pi * (n // 2) * numpy.arange(n) / n)
    last = (abs(numpy.einsum("t,...ts->...s", sign, slopes)) ** 2).mean(-1)
    total = total + (last if n % 2 == 0 else 2 * last)
    energy = n * (slopes ** 2).sum(-2).mean(-1)
    if not numpy.allclose(total, energy, rtol=1e-9, atol=0):
        failures.append("%s: Parseval fails, spectrum sums to %r but n_frames * mean energy is %r"
                        % (label, numpy.asarray(total).tolist(), numpy.asarray(energy).tolist()))


rng = numpy.random.RandomState(1919)

# generic data
generic = rng.standard_normal((64, 12))
check_definition("64 frames x 12 sub-aps, random", generic)
check_parseval("64 frames x 12 sub-aps, random", generic)

# two of the twelve sub-apertures are unilluminated: their slopes are zero in every frame
padded = generic.copy()
padded[:, [3, 10]] = 0.0
check_definition("64 x 12 random, sub-aps 3 and 10 all zero", padded)
check_parseval("64 x 12 random, sub-aps 3 and 10 all zero", padded)

# a pure sinusoid (bin 5 of 50 frames) seen by 3 sub-apertures out of 8, nothing in the others
t = numpy.arange(50)
sine = numpy.zeros((50, 8))
sine[:, :3] = 2.0 * numpy.sin(2 * numpy.pi * 5 * t / 50)[:, None]
check_definition("sinusoid in 3 of 8 sub-aps", sine)
check_parseval("sinusoid in 3 of 8 sub-aps", sine)
tps, _ = calc_slope_temporalps(sine)
expected_peak = (2.0 * 50 / 2) ** 2 * 3 / 8
if int(numpy.argmax(tps)) != 5 or not numpy.isclose(tps[5], expected_peak, rtol=1e-9):
    failures.append("sinusoid in 3 of 8 sub-aps: peak at bin %d with power %r, expected bin 5 with power %r"
                    % (int(numpy.argmax(tps)), float(tps[int(numpy.argmax(tps))]), expected_peak))

# leading dimensions (x block and y block); odd frame count; the y block has one dead sub-aperture
stacked = rng.standard_normal((2, 31, 6))
stacked[1, :, 4] = 0.0
check_definition("2 x 31 x 6, block 1 has sub-ap 4 all zero", stacked)
check_parseval("2 x 31 x 6, block 1 has sub-ap 4 all zero", stacked)

# quadratic in amplitude, down to amplitude 0: the spectrum of all-zero slopes is 0
zero_tps, _ = calc_slope_temporalps(0.0 * generic)
if not numpy.array_equal(zero_tps, numpy.zeros(32)):
    failures.append("all-zero slopes: spectrum is %r..., expected exactly 0" % (zero_tps[:3].tolist(),))

if failures:
    print("C19 violated: temporal power spectrum is not |FT|^2 averaged over the sub-apertures")
    for f in failures:
        print("  -", f)
    sys.exit(1)
print("ok: temporal power spectrum equals |FT|^2 averaged over all sub-apertures, Parseval holds")
sys.exit(0)
