"""
C04 demo A: every new row of an infinite phase screen must be  X = A*Z + B*b  with b a FRESH unit-normal
vector, independent of the stencil Z and of everything drawn before -- whatever else the program does
with the library between two add_row() calls.

Schedule: one screen is extruded row by row; between two rows the program builds another (small, seeded)
infinite phase screen, as a multi-layer simulation does when it re-creates a layer.  From each new row
the innovation  b = L^-1 (X - A*Z)  is recovered with A and L = chol(Cov(X|Z)) computed HERE from the
von Karman covariance (nothing is read from the screen object except its phase), and then
  * b must look unit-normal (variance close to 1), and
  * the innovations of different rows must be uncorrelated (they are independent draws).
"""
import sys
import numpy
from scipy.special import gamma, kv
from scipy import linalg

from aotools.turbulence import infinitephasescreen


def vk_cov(r, r0, L0):
    r = numpy.asarray(r, dtype=float)
    x = 2 * numpy.pi * r / L0
    c = (L0 / r0) ** (5. / 3) * gamma(11. / 6) / (2 ** (5. / 6) * numpy.pi ** (8. / 3)) \
        * ((24. / 5) * gamma(6. / 5)) ** (5. / 6)
    out = numpy.empty_like(x)
    nz = x > 0
    out[nz] = x[nz] ** (5. / 6) * kv(5. / 6, x[nz])
    out[~nz] = 2 ** (-1. / 6) * gamma(5. / 6)          # limit of x^(5/6) K_5/6(x) at 0
    return c * out


def conditional_law(nx, n_rows, pixel_scale, r0, L0):
    """A and the Cholesky factor of Cov(X|Z); Z = rows 0..n_rows-1 (row-major), X = the row at -1."""
    zi, zj = numpy.meshgrid(numpy.arange(n_rows), numpy.arange(nx), indexing="ij")
    pz = numpy.stack([zi.ravel(), zj.ravel()], axis=1).astype(float)
    px = numpy.stack([-numpy.ones(nx), numpy.arange(nx)], axis=1)
    p = numpy.concatenate([pz, px]) * pixel_scale
    d = numpy.sqrt(((p[:, None, :] - p[None, :, :]) ** 2).sum(-1))
    C = vk_cov(d, r0, L0)
    n = len(pz)
    Czz, Cxz, Cxx = C[:n, :n], C[n:, :n], C[n:, n:]
    A = linalg.solve(Czz, Cxz.T, assume_a="pos").T
    cond = Cxx - A.dot(Cxz.T)
    return A, linalg.cholesky((cond + cond.T) / 2, lower=True)


def main():
    nx, n_rows, pixel_scale, r0, L0 = 24, 2, 0.1, 0.15, 25.
    A, L = conditional_law(nx, n_rows, pixel_scale, r0, L0)

    problems = []
    for label, seed in (("seeded screen (random_seed=11)", 11), ("unseeded screen", None)):
        screen = infinitephasescreen.PhaseScreenVonKarman(nx, pixel_scale, r0, L0, random_seed=seed,
                                                          n_columns=n_rows)
        innovations = []
        for step in range(14):
            Z = numpy.array(screen.scrn[:n_rows]).ravel()
            screen.add_row()
            X = numpy.array(screen.scrn[0])
            innovations.append(linalg.solve_triangular(L, X - A.dot(Z), lower=True))
            # ... the program (re)creates another layer before the next row is needed
            infinitephasescreen.PhaseScreenVonKarman(8, 0.2, 0.2, 20., random_seed=3)
        b = numpy.array(innovations)

        var = b.var()
        corr = numpy.corrcoef(b)
        worst = numpy.abs(corr - numpy.eye(len(b))).max()
        print("%s: innovation variance %.3f, largest |correlation| between the innovations of two rows %.3f"
              % (label, var, worst))
        if not 0.55 < var < 1.55:      # 336 samples: sd of the sample variance is 0.08
            problems.append("%s: innovations are not unit-normal (variance %.3f)" % (label, var))
        if worst > 0.8:      # 24 independent normals: |corr| ~ 0.2, 0.8 is a 6 sigma event
            i, j = numpy.unravel_index(numpy.argmax(numpy.abs(corr - numpy.eye(len(b)))), corr.shape)
            problems.append("%s: rows %d and %d were built from the same innovation vector "
                            "(correlation %.6f) -- b is not a fresh draw" % (label, i, j, corr[i, j]))

    if problems:
        print("C04 VIOLATED:")
        for p in problems:
            print("  " + p)
        return 1
    print("C04 holds: every row used a fresh unit-normal innovation")
    return 0


if __name__ == "__main__":
    sys.exit(main())
