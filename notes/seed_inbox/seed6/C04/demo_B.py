"""
C04 demo B: the Fried-stencil screen (PhaseScreenKolmogorov) measures its stencil relative to a reference
pixel, so adding a constant to the whole screen must add exactly that constant to the next row --
whichever way the row is obtained: get_new_row() (the row alone) or add_row() (the row extruded into the
screen), for allowed (2^n+1) and padded sizes, for every stencil_length_factor.

Two screens are built from the same seed (same phase, same innovation stream); a constant is added to
every pixel of the second one; the next row of the second must be the next row of the first plus the
constant (up to rounding: 1e-9 relative).
"""
import sys
import numpy

from aotools.turbulence import infinitephasescreen


def pair(nx, factor, seed):
    return [infinitephasescreen.PhaseScreenKolmogorov(nx, 0.1, 0.2, 30., random_seed=seed,
                                                      stencil_length_factor=factor) for _ in range(2)]


def main():
    problems = []
    for nx, factor in ((17, 4), (12, 2), (9, 1)):
        for c in (1.0, -250.0, 1.0e4):
            tol = 1e-9 * max(1.0, abs(c))

            # (1) the row alone
            s0, s1 = pair(nx, factor, seed=5)
            s1._scrn = s1._scrn + c
            d = (s1.get_new_row() - s0.get_new_row()).ravel() - c
            if numpy.abs(d).max() > tol:
                problems.append("nx_size=%d, stencil_length_factor=%d, constant %g: get_new_row() is off by up to "
                                "%.3e from 'old row + constant'" % (nx, factor, c, numpy.abs(d).max()))

            # (2) the row extruded into the screen, three rows in a sequence
            s0, s1 = pair(nx, factor, seed=5)
            s1._scrn = s1._scrn + c
            for step in range(3):
                r0 = numpy.array(s0.add_row())
                r1 = numpy.array(s1.add_row())
                d = (r1 - r0) - c                # the whole visible screen, new row included, moved by c
                if numpy.abs(d).max() > tol * (step + 1):
                    i, j = numpy.unravel_index(numpy.argmax(numpy.abs(d)), d.shape)
                    problems.append("nx_size=%d, stencil_length_factor=%d, constant %g: after add_row() #%d the "
                                    "screen moved by %.9g instead of %g at pixel (%d, %d) (error %.3e)"
                                    % (nx, factor, c, step + 1, r1[i, j] - r0[i, j], c, i, j, abs(d[i, j])))
                    break

    if problems:
        print("C04 VIOLATED: a constant added to the Fried-stencil screen is not carried over to the new row")
        for p in problems[:12]:
            print("  " + p)
        if len(problems) > 12:
            print("  ... and %d more" % (len(problems) - 12))
        return 1
    print("C04 holds: constant offsets pass through get_new_row() and add_row() of the Fried-stencil screen")
    return 0


if __name__ == "__main__":
    sys.exit(main())
