"""
C17: for stacked profiles the integration-axis argument of coherenceTime / isoplanaticAngle gives the
same numbers as looping over the profiles one at a time -- for arrays of any rank and ANY integration axis.

Profiles are stacked "layers first" here (shape (n_layers, n_profiles), as a table read with one
column per night would be), so the layers live on axis 0.
"""
import sys
import numpy
from aotools.turbulence import atmos_conversions as ac

rng = numpy.random.RandomState(17)
failures = []


def stack(shape):
    cn2 = 10.0 ** rng.uniform(-16, -13, size=shape)
    h = rng.uniform(100.0, 20000.0, size=shape)
    v = rng.uniform(2.0, 40.0, size=shape)
    return cn2, h, v


def looped(func, cn2, x, lamda, axis):
    """Reference: move the layer axis last and call the function profile by profile (1-D)"""
    c = numpy.moveaxis(cn2, axis, -1)
    y = numpy.moveaxis(x, axis, -1)
    out = numpy.empty(c.shape[:-1])
    for idx in numpy.ndindex(*c.shape[:-1]):
        out[idx] = func(c[idx], y[idx], lamda)
    return out


cases = [((7, 7), 0), ((7, 7), 1), ((7, 7), -1), ((7, 7), -2),     # square stack
         ((5, 9), 0), ((5, 9), 1), ((5, 9), -2),
         ((4, 3, 6), 0), ((4, 3, 6), 1), ((4, 3, 6), 2), ((4, 3, 6), -3)]

for lamda in (500e-9, 2.2e-6):
    for shape, axis in cases:
        cn2, h, v = stack(shape)
        for name, func, x in (("isoplanaticAngle", ac.isoplanaticAngle, h),
                              ("coherenceTime", ac.coherenceTime, v)):
            want = looped(func, cn2, x, lamda, axis)
            try:
                got = numpy.asarray(func(cn2, x, lamda, axis=axis))
            except Exception as exc:   # noqa
                failures.append("%s shape %s axis=%d lamda=%g raised %r" % (name, shape, axis, lamda, exc))
                continue
            if got.shape != want.shape:
                failures.append("%s shape %s axis=%d lamda=%g: result has shape %s, looping gives %s"
                                % (name, shape, axis, lamda, got.shape, want.shape))
            elif not numpy.allclose(got, want, rtol=1e-12, atol=0.0):
                worst = numpy.max(numpy.abs(got / want - 1))
                failures.append("%s shape %s axis=%d lamda=%g: differs from the per-profile loop by up to %.3g (relative)"
                                % (name, shape, axis, lamda, worst))

# single layer: theta0 = 0.314 r0/h, tau0 = 0.314 r0/v (to the rounding of the constants), layers on axis 0
cn2 = numpy.array([[2e-13, 5e-14, 8e-13]])           # one layer, three profiles
h = numpy.full_like(cn2, 8000.0)
v = numpy.full_like(cn2, 12.0)
r0 = ac.cn2_to_r0(cn2[0])
theta = numpy.asarray(ac.isoplanaticAngle(cn2, h, axis=0))
tau = numpy.asarray(ac.coherenceTime(cn2, v, axis=0))
want_theta = 0.314 * r0 / 8000.0 * 180 * 3600 / numpy.pi
want_tau = 0.314 * r0 / 12.0
if theta.shape != want_theta.shape or not numpy.allclose(theta, want_theta, rtol=5e-3):
    failures.append("single layer, axis=0: isoplanatic angle %s, 0.314 r0/h = %s" % (theta, want_theta))
if tau.shape != want_tau.shape or not numpy.allclose(tau, want_tau, rtol=5e-3):
    failures.append("single layer, axis=0: coherence time %s, 0.314 r0/v = %s" % (tau, want_tau))

if failures:
    print("C17 VIOLATED (%d findings); first few:" % len(failures))
    for f in failures[:6]:
        print("  " + f)
    sys.exit(1)
print("C17 holds: every integration axis agrees with looping over the profiles")
sys.exit(0)
