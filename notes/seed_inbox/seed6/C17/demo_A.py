"""
C17: photon counts are proportional to the collecting area (and exposure time), and the composite
photons_per_band equals magnitude_to_flux * exposure time * area -- for EVERY call, whatever pupil
masks the library has been shown before.

Scenario: a simulation builds its telescope pupil step by step (full aperture, then the central
obscuration is cut out of the same array), and also compares a few apertures created on the fly.
"""
import sys
import numpy
from aotools import astronomy, circle

BANDS = ['U', 'B', 'V', 'R', 'I', 'J', 'H', 'K', 'g', 'r', 'i', 'z']
failures = []


def expected(mag, mask, pxl, t, band):
    return astronomy.magnitude_to_flux(mag, band) * t * (mask.sum() * pxl ** 2)


def check(label, got, want):
    if not numpy.isclose(got, want, rtol=1e-12, atol=0.0):
        failures.append("%s: photons_per_band gave %.9g, flux*time*area is %.9g (ratio %.6f)"
                        % (label, got, want, got / want))


mag, pxl, t = 7.0, 0.125, 0.002

# 1. the same pupil array, refined in place between calls
pupil = circle(30, 64).astype(float)
full_area = pupil.sum()
p_full = astronomy.photons_per_band(mag, pupil, pxl, t, 'R')
check("full aperture", p_full, expected(mag, pupil, pxl, t, 'R'))

pupil[circle(12, 64) == 1] = 0.0          # cut the central obscuration out of the same array
obsc_area = pupil.sum()
p_obsc = astronomy.photons_per_band(mag, pupil, pxl, t, 'R')
check("obscured aperture (same array, edited in place)", p_obsc, expected(mag, pupil, pxl, t, 'R'))
if not numpy.isclose(p_obsc / p_full, obsc_area / full_area, rtol=1e-12):
    failures.append("photons not proportional to area: photon ratio %.6f, area ratio %.6f"
                    % (p_obsc / p_full, obsc_area / full_area))

# 2. apertures made on the fly (temporaries of the same shape), every band
for band in BANDS:
    for radius in (3, 5, 8, 11, 15):
        got = astronomy.photons_per_band(mag, circle(radius, 32), pxl, t, band)
        check("band %s, circle(%d, 32) passed as a temporary" % (band, radius),
              got, expected(mag, circle(radius, 32), pxl, t, band))

# 3. exposure time proportionality on the final pupil
p1 = astronomy.photons_per_band(mag, pupil, pxl, 0.001, 'V')
p5 = astronomy.photons_per_band(mag, pupil, pxl, 0.005, 'V')
if not numpy.isclose(p5 / p1, 5.0, rtol=1e-12):
    failures.append("photons not proportional to exposure time: ratio %.6f, expected 5" % (p5 / p1))

if failures:
    print("C17 VIOLATED (%d findings); first few:" % len(failures))
    for f in failures[:6]:
        print("  " + f)
    sys.exit(1)
print("C17 holds: photon counts follow the collecting area of the mask actually passed")
sys.exit(0)
